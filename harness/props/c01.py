"""C01 — Polars and SQL backends return the same table for the same pipeline.
Both backends are compared with the Coq reference on the real resolved AST (L1), over the broad
generator profile (all verbs incl. joins and unions, windows, aggregates, all data shapes)."""
import pipeprop

TRUSTED_BASE = [
    "Model/RefSem.v + Model/Ops.v are the specification; harness/ser.py prints the real AST of each backend",
    "SQLite is the executable SQL representative; its result is read through export(Polars())",
]
ASSUMPTIONS = ["value domain of DESIGN.md section 4 (cases outside are discarded and counted)",
               "known findings (known_findings.json) are avoided by generator preconditions and re-demonstrated by probes"]
PROFILE = {}


def run(ctx, res):
    import scenarios
    fam = []
    if not ctx.replay:
        big = ctx.tier != "quick"
        for k, (f, nq) in enumerate(((scenarios.family_a, 480), (scenarios.family_joins, 130), (scenarios.family_unions, 80),
                                     (scenarios.family_slices, 50), (scenarios.family_grouping, 50),
                                     (scenarios.family_names, 10 ** 6), (scenarios.family_suffix, 60))):
            fam += scenarios.pick(f(), 10 ** 6 if big else nq, ctx.seed + 3 + k)
    pipeprop.run(ctx, res, "C01", PROFILE, n_quick=350, n_thorough=8000, probe_ids=("F07",), label="broad", extra_cases=fam)
    res.coverage["scenario_grid"] = {"family": "A + joins + unions + slices + grouping + names", "cases": len(fam)}
    if ctx.tier == "thorough" and not ctx.replay:
        pipeprop.run(ctx, res, "C01", {"shapes": {"tall": 3, "empty": 2, "single": 2, "nulls": 3}, "max_steps": 5},
                     n_quick=0, n_thorough=600, label="tall/empty/single shapes")
