"""C16 — alias / collect / transfer_col_references re-root a table without changing data."""
import copy

import gen
import pipecheck
import pipeprop

TRUSTED_BASE = ["Model/RefSem.v do_alias is the specification; collect() is observed as a step of the pipeline description"]
ASSUMPTIONS = ["value domain of DESIGN.md section 4"]
PROFILE = {
    "verbs": {"mutate": 4, "filter": 2, "select": 2.5, "drop": 1.5, "rename": 2.5, "arrange": 2, "slice_head": 0.5,
              "group_by": 1.5, "ungroup": 0.7, "summarize": 0.7, "alias": 5, "join": 1.2, "union": 0.3},
    "window": 0.15, "max_steps": 7, "hidden_refs": 0.5,
    "shapes": {"typical": 5, "nulls": 2, "dups": 2, "single": 1, "empty": 1, "tall": 0},
}


def reroot_variants(seed, n):
    """prefix >> X where X in {alias(), alias(keep), collect()}, compared with the prefix itself; then a
    self-join of prefix with (prefix >> alias()), and uses of old / new references."""
    g = gen.Gen(seed + 77, {**PROFILE, "joins": False, "unions": False, "max_steps": 4,
                            "verbs": {**PROFILE["verbs"], "alias": 0.5, "summarize": 0.3}})
    out = []
    for i in range(n):
        c = g.case()
        out.append(c)
    return out


def transfer_oracle(c, b, variant="plain"):
    """materialize the table of case c (new table holding the exported frame) and transfer the column
    references of the origin to it: same visible table, and every reference of the origin pipeline that is
    valid on the origin's final table addresses the same data and the same name afterwards.
    Returns None (not applicable), [] (ok) or a list of failure texts."""
    import warnings

    import pydiverse.transform as pdt
    from pipes import Instantiator
    from pydiverse.transform import extended as X

    def rows(df):
        return sorted(map(repr, df.rows()))
    with warnings.catch_warnings():
        warnings.simplefilter("ignore")
        out = Instantiator(c, b, {}).run()
        if out.exc is not None:
            return None
        tbl = out.table
        try:
            if tbl._cache.partition_by:
                tbl = tbl >> X.ungroup()
            ref = tbl >> X.export(pdt.Polars())
        except BaseException:  # noqa: BLE001
            return None
        fails = []
        try:
            if variant == "renamed" and len(ref.columns) >= 2:
                # the materialised table reaches the right names through a rename of its own: the first two
                # columns arrive under each other's name and are swapped back
                n0, n1 = ref.columns[0], ref.columns[1]
                swapped = ref.rename({n0: "__tmp__"}).rename({n1: n0}).rename({"__tmp__": n1})
                new = pdt.Table(swapped, name="mat") >> X.rename({n0: n1, n1: n0})
                new = new >> X.select(*[new[n] for n in ref.columns])
            else:
                new = pdt.Table(ref, name="mat")
            m = pdt.transfer_col_references(new, tbl)
            got = m >> X.export(pdt.Polars())
        except BaseException as ex:  # noqa: BLE001
            return [f"transfer_col_references / export raised {type(ex).__name__}: {str(ex)[:150]}"]
        if got.columns != ref.columns or rows(got) != rows(ref):
            fails.append(f"transfer_col_references changed the visible table: {got.columns} vs {ref.columns}")
        if [x.name for x in m] != [x.name for x in tbl]:
            fails.append("transfer_col_references changed the column list")
        # every reference of the origin pipeline (all intermediate tables) that is visible in the final table
        seen = set()
        for key, pt in out.points.items():
            for col in pt:
                if col._uuid in seen or col._uuid not in tbl._cache.uuid_to_name:
                    continue
                seen.add(col._uuid)
                try:
                    want = tbl >> X.mutate(zz9=col) >> X.export(pdt.Polars())
                except BaseException:  # noqa: BLE001
                    continue
                try:
                    have = m >> X.mutate(zz9=col) >> X.export(pdt.Polars())
                    nm = (m[col].name, tbl[col].name)
                except BaseException as ex:  # noqa: BLE001
                    fails.append(f"the origin's reference to `{tbl._cache.uuid_to_name[col._uuid]}` ({key}) does not work "
                                 f"after transfer_col_references: {type(ex).__name__}: {str(ex)[:120]}")
                    continue
                if have.columns != want.columns or rows(have) != rows(want):
                    fails.append(f"the origin's reference to `{tbl._cache.uuid_to_name[col._uuid]}` ({key}) addresses other data "
                                 f"after transfer_col_references")
                if nm[0] != nm[1]:
                    fails.append(f"the origin's reference ({key}) is called `{nm[0]}` after the transfer, `{nm[1]}` before")
        return fails


def run(ctx, res):
    cases, obs, verdicts = pipeprop.run(ctx, res, "C16", PROFILE, n_quick=350, n_thorough=5000, probe_ids=())
    if ctx.replay:
        import json
        from pathlib import Path
        rp = json.loads(Path(ctx.replay).read_text())
        if rp.get("failure", {}).get("kind") == "transfer":
            fs = transfer_oracle(rp["case"], rp["backend"], rp.get("failure", {}).get("variant", "plain"))
            if fs:
                res.violations.append({"what": fs[0], "found_input": True,
                                       "payload": {"case": rp["case"], "backend": rp["backend"], "failure": {"kind": "transfer"}}})
        return
    n = 120 if ctx.tier == "quick" else 1200
    bases = reroot_variants(ctx.seed, n)
    bad = 0
    stats = {"alias": 0, "alias_keep": 0, "collect": 0, "self_join": 0, "old_ref_rejected": 0, "transfer": 0}
    tbad = 0
    for c in bases:
        pid = c["pipe"]["id"]
        k = len(c["pipe"]["steps"])
        for b in ("polars", "sqlite"):
            for variant in ("plain", "renamed"):
                fs = transfer_oracle(c, b, variant)
                if fs is not None:
                    stats["transfer"] += 1
                    if fs and tbad < 2:
                        tbad += 1
                        res.violations.append({"what": f"{b}: {fs[0]} [{variant}]", "found_input": True,
                                               "payload": {"case": c, "backend": b, "failure": {"kind": "transfer", "variant": variant},
                                                           "all": fs[:6]}})
            base = pipecheck.observe(c, b)
            if base.exc or base.export_exc or base.names is None:
                continue
            grouped = False
            for st in c["pipe"]["steps"]:
                grouped = st[0] == "group_by" or (grouped and st[0] not in ("ungroup", "summarize"))
            variants = [("alias", ["alias", False]), ("alias_keep", ["alias", True])]
            if b == "polars":
                variants.append(("collect", ["collect"]))
            for label, step in variants:
                c2 = copy.deepcopy(c)
                c2["pipe"]["steps"].append(step)
                o = pipecheck.observe(c2, b)
                stats[label] += 1
                same = (o.exc is None and o.export_exc is None and o.names == base.names
                        and sorted(map(repr, o.rows)) == sorted(map(repr, base.rows))
                        and (o.columns == base.columns))
                if not same and bad < 3:
                    bad += 1
                    res.violations.append({
                        "what": f"{label} changed the visible data, names or order of the table",
                        "found_input": True,
                        "payload": {"case": c2, "backend": b, "failure": {"kind": "reroot"},
                                    "observed": {b: o.to_json()}, "before": base.to_json()}})
            # independence after a plain alias: self-join accepted, the origin's references are not
            if not grouped:
                c3 = copy.deepcopy(c)
                right = copy.deepcopy(c["pipe"])
                right["id"] = "R0"
                right = gen_rename_points(right, pid, "R0")
                right["steps"].append(["alias", False])
                c3["pipe"]["steps"].append(["join", right, "cross", "inner", "_q"])
                o = pipecheck.observe(c3, b)
                stats["self_join"] += 1
                if (o.exc not in (None, "SubqueryError", "ValueError") or (o.exc is None and o.export_exc not in (None,))) and bad < 3:
                    bad += 1
                    res.violations.append({
                        "what": "a table cannot be joined with an alias() of itself",
                        "found_input": True,
                        "payload": {"case": c3, "backend": b, "failure": {"kind": "self_join"},
                                    "observed": {b: o.to_json()}}})
                elif o.exc is None and o.export_exc is None and len(o.rows) != len(base.rows) ** 2 and bad < 3:
                    bad += 1
                    res.violations.append({
                        "what": f"self cross join has {len(o.rows)} rows, expected {len(base.rows) ** 2}",
                        "found_input": True,
                        "payload": {"case": c3, "backend": b, "failure": {"kind": "self_join"},
                                    "observed": {b: o.to_json()}}})
            # the origin's references do not work on the aliased table
            c4 = copy.deepcopy(c)
            c4["pipe"]["steps"].append(["alias", False])
            c4["pipe"]["steps"].append(["mutate", [["z_", ["col", f"{pid}@{k}", base.columns[0]]]]])
            o = pipecheck.observe(c4, b)
            stats["old_ref_rejected"] += 1
            if o.exc != "ColumnNotFoundError" and bad < 3:
                bad += 1
                res.violations.append({
                    "what": f"a reference of the origin still resolves after a plain alias() (got {o.exc})",
                    "found_input": True,
                    "payload": {"case": c4, "backend": b, "failure": {"kind": "old_ref"}, "observed": {b: o.to_json()}}})
    res.coverage["reroot_oracles"] = stats
    res.coverage["evaluations"] = res.coverage.get("evaluations", 0) + sum(stats.values())


def gen_rename_points(x, old, new):
    if isinstance(x, list):
        if len(x) == 3 and x[0] == "col" and isinstance(x[1], str) and x[1].startswith(old + "@"):
            return ["col", new + "@" + x[1].split("@")[1], x[2]]
        return [gen_rename_points(y, old, new) for y in x]
    if isinstance(x, dict):
        return {k: gen_rename_points(v, old, new) for k, v in x.items()}
    return x
