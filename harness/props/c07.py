"""C07 — union stacks rows by column name; distinct removes duplicates."""
import pipeprop

TRUSTED_BASE = ["Model/RefSem.v do_union is the specification", "L1 tie on generated pipelines"]
ASSUMPTIONS = ["value domain of DESIGN.md section 4"]
PROFILE = {
    "verbs": {"mutate": 3, "filter": 2, "select": 2.5, "drop": 1, "rename": 1.5, "arrange": 0.5, "slice_head": 0,
              "group_by": 0.3, "ungroup": 0.3, "summarize": 0.3, "alias": 1, "join": 0, "union": 5},
    "window": 0.05, "joins": False, "unions": True, "max_steps": 5,
    "shapes": {"typical": 4, "nulls": 3, "dups": 5, "single": 1, "empty": 2, "tall": 0.1},
}


def run(ctx, res):
    import scenarios
    fam = [] if ctx.replay else scenarios.pick(scenarios.family_unions(), 300 if ctx.tier == "quick" else 10 ** 6, ctx.seed)
    pipeprop.run(ctx, res, "C07", PROFILE, n_quick=300, n_thorough=6000, probe_ids=("F28",), extra_cases=fam)
    res.coverage["scenario_grid"] = {"family": "unions (left x right incl. permuted / hidden same-name columns x distinct x follower)", "cases": len(fam)}
