"""C12 — Static types predict the exported types.
Oracle on every generated pipeline (both backends): the static dtype of each visible column is a
supertype of - for concrete types equal to - the exported Polars dtype (SQLite: up to the numeric
family); re-importing the exported frame with Table(...) and collect() reproduce the types."""
import warnings

import gen
import pipeprop
from pipes import Instantiator

TRUSTED_BASE = ["static types are read with ColExpr.dtype(); exported types from export(Polars()).schema"]
ASSUMPTIONS = ["value domain of DESIGN.md section 4"]
PROFILE = {"max_steps": 5, "window": 0.3, "float": 0.8,
           "shapes": {"typical": 5, "nulls": 3, "dups": 1, "single": 1, "empty": 1.5, "tall": 0}}

INT_PL = {"Int8", "Int16", "Int32", "Int64", "UInt8", "UInt16", "UInt32", "UInt64"}
FLT_PL = {"Float32", "Float64"}


def compatible(static: str, pl: str, backend: str, all_null: bool):
    """static: str(dtype) of pydiverse (const stripped), pl: str of the polars dtype"""
    s = static.replace("const ", "")
    if pl == "Null":
        return all_null                    # only all-null columns may be null-typed
    if s in INT_PL:
        return pl == s if backend == "polars" else pl in INT_PL
    if s == "Int":
        return pl in INT_PL
    if s in FLT_PL:
        return pl == s if backend == "polars" else (pl in FLT_PL or pl.startswith("Decimal"))
    if s == "Float" or s.startswith("Decimal"):
        return pl in FLT_PL or pl.startswith("Decimal")
    if s == "Bool":
        return pl == "Boolean"
    if s.startswith("String") or s.startswith("Enum"):
        return pl in ("String", "Utf8") or pl.startswith("Enum") or pl.startswith("Categorical")
    if s == "Date":
        return pl == "Date"
    if s == "Datetime":
        return pl.startswith("Datetime")
    if s == "NullType":
        return True
    return False


def run(ctx, res):
    cases, obs, verdicts = pipeprop.run(ctx, res, "C12", PROFILE, n_quick=350, n_thorough=5000, probe_ids=())
    import pydiverse.transform as pdt
    from pydiverse.transform import extended as X
    listed = pipeprop.listed_findings()
    bad = 0
    hits = {"F22": 0}
    checked = 0
    reimport = 0
    for c, o in zip(cases, obs):
        for b, ob in o.items():
            if ob.names is None or not ob.meta or "static_dtypes" not in ob.meta:
                continue
            for j, (name, st, pl) in enumerate(zip(ob.names, ob.meta["static_dtypes"], ob.dtypes)):
                checked += 1
                col_vals = [r[j] for r in ob.rows]
                all_null = all(v is None for v in col_vals)
                if compatible(st, pl, b, all_null):
                    continue
                # finding F22: SQLite exports NOT(<conjunction/disjunction>) as an integer
                if b == "sqlite" and st.replace("const ", "") == "Bool" and pl in INT_PL and "F22" in listed:
                    hits["F22"] += 1
                    continue
                if bad < 3:
                    bad += 1
                    res.violations.append({
                        "what": f"column `{name}` has static type {st} but is exported as {pl} on {b}",
                        "found_input": True,
                        "payload": {"case": c, "backend": b, "failure": {"kind": "dtype"}, "column": name,
                                    "static": st, "exported": pl, "observed": {b: ob.to_json()}}})
        # re-import on Polars: Table(export) and collect() reproduce the types
        op = o.get("polars")
        if op is None or op.names is None or bad >= 3:
            continue
        try:
            with warnings.catch_warnings():
                warnings.simplefilter("ignore")
                out = Instantiator(c, "polars", {}).run()
                tbl = out.table
                grouped = bool(tbl._cache.partition_by)
                df = tbl >> X.export(pdt.Polars())
                t2 = pdt.Table(df)
                t3 = tbl >> X.collect()
                d1 = [str(x) for x in (t2 >> X.export(pdt.Polars())).dtypes]
                d2 = [str(x) for x in ((t3 >> X.ungroup() if grouped else t3) >> X.export(pdt.Polars())).dtypes]
            reimport += 1
            if d1 != op.dtypes or d2 != op.dtypes:
                bad += 1
                res.violations.append({
                    "what": f"re-import / collect changes the column types: {op.dtypes} -> Table: {d1}, collect: {d2}",
                    "found_input": True,
                    "payload": {"case": c, "backend": "polars", "failure": {"kind": "reimport"}}})
        except Exception as ex:  # noqa: BLE001
            bad += 1
            res.violations.append({"what": f"re-import failed: {type(ex).__name__}: {str(ex)[:200]}", "found_input": True,
                                   "payload": {"case": c, "backend": "polars", "failure": {"kind": "reimport"}}})
    # dedicated probe for F22
    if "F22" in listed:
        import findings
        pc = findings.P([["mutate", [["x", ["fn", "bool_invert", [["fn", "bool_and", [["fn", "is_not_null", [["col", "P@0", "s"]]], ["col", "P@0", "p"]]]]]]]]])
        import pipecheck
        po = pipecheck.observe(pc, "sqlite")
        if po.dtypes and po.dtypes[-1] in INT_PL:
            hits["F22"] += 1
    if hits["F22"]:
        res.known.append(f"F22 {listed['F22']['what']}")
    res.coverage["dtype_oracle"] = {"columns_checked": checked, "reimports": reimport}
    res.coverage["partial"] = ["type soundness is proved for literals, casts, comparisons, boolean operators, integer arithmetic, Int/Int and counts only"]
