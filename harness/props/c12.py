"""C12 — Static types predict the exported types.
Oracle on every generated pipeline (both backends): the static dtype of each visible column is a
supertype of - for concrete types equal to - the exported Polars dtype (SQLite: up to the numeric
family); re-importing the exported frame with Table(...) and collect() reproduce the types."""
import warnings

import gen
import pipeprop
from pipes import Instantiator

TRUSTED_BASE = ["static types are read with ColExpr.dtype(); exported types from export(Polars()).schema"]
ASSUMPTIONS = ["value domain of DESIGN.md section 4"]
PROFILE = {"max_steps": 5, "window": 0.3, "float": 0.8,
           "shapes": {"typical": 5, "nulls": 3, "dups": 1, "single": 1, "empty": 1.5, "tall": 0}}

INT_PL = {"Int8", "Int16", "Int32", "Int64", "UInt8", "UInt16", "UInt32", "UInt64"}
FLT_PL = {"Float32", "Float64"}


def compatible(static: str, pl: str, backend: str, all_null: bool):
    """static: str(dtype) of pydiverse (const stripped), pl: str of the polars dtype"""
    s = static.replace("const ", "")
    if pl == "Null":
        return all_null                    # only all-null columns may be null-typed
    if s in INT_PL:
        return pl == s if backend == "polars" else pl in INT_PL
    if s == "Int":
        return pl in INT_PL
    if s in FLT_PL:
        return pl == s if backend == "polars" else (pl in FLT_PL or pl.startswith("Decimal"))
    if s == "Float" or s.startswith("Decimal"):
        return pl in FLT_PL or pl.startswith("Decimal")
    if s == "Bool":
        return pl == "Boolean"
    if s.startswith("String") or s.startswith("Enum"):
        return pl in ("String", "Utf8") or pl.startswith("Enum") or pl.startswith("Categorical")
    if s == "Duration":
        return pl.startswith("Duration")
    if s.startswith("List["):
        return pl.startswith("List(")
    if s == "Time":
        return pl == "Time"
    if s == "Date":
        return pl == "Date"
    if s == "Datetime":
        return pl.startswith("Datetime")
    if s == "NullType":
        return True
    return False


# (backend, operator, first argument type) of the listed findings met by the operator grid
KNOWN_GRID = {
    ("polars", "clip", "String"): "F42", ("polars", "clip", "Bool"): "F42",
    ("sqlite", "str_join", "String"): "F43",
    ("sqlite", "round", "Int64"): "F44",
}


def operator_grid(ctx, res):
    """every operator x declared overload on a table with three columns per type (Int64, Float64, String, Bool, Date,
    Datetime; nulls included), executed on Polars and SQLite: the exported dtype is the static one (families on SQLite);
    shift in both directions with and without a fill value.  Data-dependent engine errors (unparsable strings,
    negative lengths) are counted, not reported."""
    import collections
    import datetime as dt

    import polars as pl
    import sqlalchemy as sqa

    import pydiverse.transform as pdt
    from pydiverse.transform import extended as X
    from pydiverse.transform._internal.errors import NotSupportedError
    from pydiverse.transform._internal.ops.op import Ftype
    from pydiverse.transform._internal.tree import types as T
    from pydiverse.transform._internal.tree.col_expr import ColFn
    from translate import all_operators, concrete_signatures, dtype_to_json
    listed = pipeprop.listed_findings()
    VAL = {"Int64": [3, None, 2, 7], "Float64": [1.5, -0.25, None, 2.0], "String": ["a", None, "b c", ""],
           "Bool": [True, False, None, True],
           "Date": [dt.date(2020, 1, 2), None, dt.date(1999, 12, 31), dt.date(2024, 2, 29)],
           "Datetime": [dt.datetime(2020, 1, 2, 3, 4, 5), dt.datetime(2001, 1, 1), None, dt.datetime(2024, 2, 29, 23, 59, 59)]}
    LIT = {"Int64": 3, "Float64": 1.5, "String": "a", "Bool": True, "Date": dt.date(2020, 1, 2),
           "Datetime": dt.datetime(2020, 1, 2, 3, 4, 5)}
    df = pl.DataFrame({f"{ty.lower()}{i}": (VAL[ty][i:] + VAL[ty][:i]) for ty in VAL for i in range(3)} | {"k": [1, 2, 3, 4]})
    eng = sqa.create_engine("sqlite://")
    df.write_database("w", eng)
    tabs = {"polars": pdt.Table(df, name="w"), "sqlite": pdt.Table("w", pdt.SqlAlchemy(eng))}
    skip = {"nulls_first", "nulls_last", "ascending", "descending", "rand", "str_to_datetime", "str_to_date"}
    cnt = collections.Counter()
    hit = collections.Counter()
    bad = 0
    for b, tbl in tabs.items():
        for opvar, op in all_operators():
            if opvar in skip:
                continue
            for tys in concrete_signatures(op):
                if op.return_type(list(tys)) is None:
                    continue
                names = [type(T.without_const(t)).__name__ for t in tys]
                if any(n not in VAL for n in names):
                    cnt[f"{b}:skipped (no such column type)"] += 1
                    continue
                used = collections.Counter()
                args = []
                for ty, nm in zip(tys, names):
                    if T.is_const(ty):
                        args.append(LIT[nm])
                    else:
                        args.append(tbl[f"{nm.lower()}{used[nm] % 3}"])
                        used[nm] += 1
                variants = [args]
                if opvar == "shift":
                    variants = [[args[0], n, f] for n in (1, -1) for f in (None, LIT[names[0]])]
                for a in variants:
                    st = pt = None
                    try:
                        with warnings.catch_warnings():
                            warnings.simplefilter("ignore")
                            kw = {"arrange": [tbl.k]} if op.ftype == Ftype.WINDOW else {}
                            a2 = list(a)
                            if a2 and not any(isinstance(x, pdt.ColExpr) for x in a2):
                                a2[0] = pdt.lit(a2[0])
                            e = ColFn(op, *a2, **kw)
                            q = (tbl >> X.summarize(z=e)) if op.ftype == Ftype.AGGREGATE else (tbl >> X.mutate(z=e) >> X.select(pdt.C.z))
                            st = str(T.without_const(q.z.dtype()))
                            out = q >> X.export(pdt.Polars())
                        pt = str(out.dtypes[0])
                        ok = compatible(st, pt, b, all(v is None for v in out["z"].to_list()))
                        what = None if ok else f"static type {st} but exported as {pt}"
                    except NotSupportedError:
                        cnt[f"{b}:NotSupportedError"] += 1
                        continue
                    except Exception as ex:  # noqa: BLE001
                        what = f"{type(ex).__name__}: {str(ex)[:120]}"
                        if opvar in ("str_slice",) and "conversion from" in what:
                            cnt[f"{b}:data-dependent engine error"] += 1
                            continue
                    if what is None:
                        cnt[f"{b}:ok"] += 1
                        continue
                    fid = KNOWN_GRID.get((b, opvar, names[0]))
                    if fid in listed:
                        hit[fid] += 1
                        continue
                    cnt[f"{b}:differs"] += 1
                    bad += 1
                    if bad <= 3:
                        res.violations.append({
                            "what": f"{b}: `{opvar}` {[dtype_to_json(t) for t in tys]}"
                                    f"{' args ' + repr([x for x in a[1:]]) if opvar == 'shift' else ''}: {what}",
                            "found_input": True,
                            "payload": {"backend": b, "operator": opvar, "argument_types": [dtype_to_json(t) for t in tys],
                                        "detail": what, "replay": "harness/props/c12.py operator_grid (table `w`: three columns per type)"}})
    for fid, k in sorted(hit.items()):
        res.known.append(f"{fid} {listed[fid]['what'][:200]} ({k} grid cells)")
    res.coverage["operator_dtype_grid"] = dict(cnt)
    res.coverage["evaluations"] = res.coverage.get("evaluations", 0) + sum(cnt.values())


def run(ctx, res):
    cases, obs, verdicts = pipeprop.run(ctx, res, "C12", PROFILE, n_quick=350, n_thorough=5000, probe_ids=())
    if not ctx.replay or "case" not in __import__("json").loads(open(ctx.replay).read()):
        operator_grid(ctx, res)
    import pydiverse.transform as pdt
    from pydiverse.transform import extended as X
    listed = pipeprop.listed_findings()
    bad = 0
    hits = {"F22": 0}
    checked = 0
    reimport = 0
    for c, o in zip(cases, obs):
        for b, ob in o.items():
            if ob.names is None or not ob.meta or "static_dtypes" not in ob.meta:
                continue
            for j, (name, st, pl) in enumerate(zip(ob.names, ob.meta["static_dtypes"], ob.dtypes)):
                checked += 1
                col_vals = [r[j] for r in ob.rows]
                all_null = all(v is None for v in col_vals)
                if compatible(st, pl, b, all_null):
                    continue
                # finding F22: SQLite exports NOT(<conjunction/disjunction>) as an integer
                if b == "sqlite" and st.replace("const ", "") == "Bool" and pl in INT_PL and "F22" in listed:
                    hits["F22"] += 1
                    continue
                if bad < 3:
                    bad += 1
                    res.violations.append({
                        "what": f"column `{name}` has static type {st} but is exported as {pl} on {b}",
                        "found_input": True,
                        "payload": {"case": c, "backend": b, "failure": {"kind": "dtype"}, "column": name,
                                    "static": st, "exported": pl, "observed": {b: ob.to_json()}}})
        # re-import on Polars: Table(export) and collect() reproduce the types
        op = o.get("polars")
        if op is None or op.names is None or bad >= 3:
            continue
        try:
            with warnings.catch_warnings():
                warnings.simplefilter("ignore")
                out = Instantiator(c, "polars", {}).run()
                tbl = out.table
                grouped = bool(tbl._cache.partition_by)
                df = tbl >> X.export(pdt.Polars())
                t2 = pdt.Table(df)
                t3 = tbl >> X.collect()
                d1 = [str(x) for x in (t2 >> X.export(pdt.Polars())).dtypes]
                d2 = [str(x) for x in ((t3 >> X.ungroup() if grouped else t3) >> X.export(pdt.Polars())).dtypes]
            reimport += 1
            if d1 != op.dtypes or d2 != op.dtypes:
                bad += 1
                res.violations.append({
                    "what": f"re-import / collect changes the column types: {op.dtypes} -> Table: {d1}, collect: {d2}",
                    "found_input": True,
                    "payload": {"case": c, "backend": "polars", "failure": {"kind": "reimport"}}})
        except Exception as ex:  # noqa: BLE001
            bad += 1
            res.violations.append({"what": f"re-import failed: {type(ex).__name__}: {str(ex)[:200]}", "found_input": True,
                                   "payload": {"case": c, "backend": "polars", "failure": {"kind": "reimport"}}})
    # dedicated probe for F22
    if "F22" in listed:
        import findings
        pc = findings.P([["mutate", [["x", ["fn", "bool_invert", [["fn", "bool_and", [["fn", "is_not_null", [["col", "P@0", "s"]]], ["col", "P@0", "p"]]]]]]]]])
        import pipecheck
        po = pipecheck.observe(pc, "sqlite")
        if po.dtypes and po.dtypes[-1] in INT_PL:
            hits["F22"] += 1
    if hits["F22"]:
        res.known.append(f"F22 {listed['F22']['what']}")
    res.coverage["dtype_oracle"] = {"columns_checked": checked, "reimports": reimport}
    res.coverage["partial"] = ["type soundness is proved for literals, casts, comparisons, boolean operators, integer arithmetic, Int/Int and counts only"]
