"""C04 — summarize and aggregate functions: one row per group, nulls ignored."""
import pipeprop

TRUSTED_BASE = ["Model/RefSem.v do_summarize / Model/Ops.v agg are the specification",
                "L1 tie on generated pipelines; HAVING/WHERE placement is exercised, not modelled, in this check"]
ASSUMPTIONS = ["value domain of DESIGN.md section 4"]
PROFILE = {
    "verbs": {"mutate": 3, "filter": 3, "select": 1, "drop": 0.5, "rename": 1, "arrange": 2, "slice_head": 1,
              "group_by": 5, "ungroup": 0.5, "summarize": 6, "alias": 2, "join": 0, "union": 0},
    "window": 0.15, "joins": False, "unions": False, "max_steps": 6,
    "shapes": {"typical": 4, "nulls": 4, "dups": 3, "single": 1.5, "empty": 2, "tall": 0.3},
}


def run(ctx, res):
    import scenarios
    fam = [c for c in scenarios.family_a() if any(st[0] == "summarize" for st in c["pipe"]["steps"])]
    fam = [] if ctx.replay else scenarios.pick(fam, 300 if ctx.tier == "quick" else 10 ** 6, ctx.seed)
    pipeprop.run(ctx, res, "C04", PROFILE, n_quick=300, n_thorough=6000, probe_ids=("F15", "F20", "F23"), extra_cases=fam)
    res.coverage["scenario_grid"] = {"family": "A restricted to pipelines with summarize", "cases": len(fam)}
