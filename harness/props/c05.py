"""C05 — arrange orders stably; window functions see the right rows in the right order."""
import pipeprop

TRUSTED_BASE = ["Model/Expr.v eval (window part) and Base/StableSort.v are the specification",
                "L1 tie on generated pipelines"]
ASSUMPTIONS = ["value domain of DESIGN.md section 4 (order-sensitive windows only under a total order)"]
PROFILE = {
    "verbs": {"mutate": 7, "filter": 2, "select": 1, "drop": 0.5, "rename": 1, "arrange": 5, "slice_head": 2.5,
              "group_by": 2.5, "ungroup": 1, "summarize": 0.5, "alias": 2, "join": 0, "union": 0},
    "window": 0.6, "joins": False, "unions": False, "max_steps": 6,
    "shapes": {"typical": 4, "nulls": 5, "dups": 4, "single": 1, "empty": 1, "tall": 0.3},
}


def run(ctx, res):
    pipeprop.run(ctx, res, "C05", PROFILE, n_quick=400, n_thorough=6000, probe_ids=("F06",))
