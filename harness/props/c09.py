"""C09 — Column references denote columns, not names.
L1 on reference-heavy histories (rename swaps, renaming onto hidden names, overwrite and re-create,
join suffixing, references taken from intermediate tables, hidden columns) + stale-reference stream:
a reference whose column is not derivable any more must be rejected with ColumnNotFoundError
(ValueError inside a join condition), never resolved to some other column."""
import copy
import random

import gen
import pipecheck
import pipeprop

TRUSTED_BASE = ["uids in the reference semantics come from the real resolved AST (harness/ser.py); the data each uid denotes is checked against both backends (L1) and the metadata model (L2)"]
ASSUMPTIONS = ["value domain of DESIGN.md section 4"]
PROFILE = {
    "verbs": {"mutate": 6, "filter": 1.5, "select": 3.5, "drop": 2.5, "rename": 4.5, "arrange": 1.5, "slice_head": 0.3,
              "group_by": 0.8, "ungroup": 0.5, "summarize": 0.6, "alias": 2, "join": 2.5, "union": 0.3},
    "window": 0.1, "max_steps": 8, "cref": 0.25, "hidden_refs": 0.7,
    "shapes": {"typical": 5, "nulls": 2, "dups": 2, "single": 1, "empty": 0.5, "tall": 0},
}


def stale_cases(seed, n):
    """valid prefix + one step that uses a reference which is not derivable any more"""
    r = random.Random(seed * 7919 + 1)
    g = gen.Gen(seed + 101, {**PROFILE, "joins": False, "unions": False, "max_steps": 4})
    out = []
    while len(out) < n:
        kind = r.choice(["summarize", "alias", "unrelated", "join_on"])
        c = g.case()
        p = c["pipe"]
        pid = p["id"]
        src_cols = [n_ for n_, _ in c["tables"][p["src"]]["cols"]]
        if any(st[0] in ("summarize", "alias", "join", "union", "collect") for st in p["steps"]):
            continue
        if any(st[0] == "group_by" for st in p["steps"]) and not any(st[0] == "ungroup" for st in p["steps"][-1:]):
            p["steps"].append(["ungroup"])
        k = len(p["steps"])
        old = ["col", f"{pid}@0", r.choice(["a", "b", "s"])]
        expect = "ColumnNotFoundError"
        if kind == "summarize":
            p["steps"].append(["summarize", [["m_", ["fn", "count_star", []]]]])
            p["steps"].append(["mutate", [["z_", old]]])
        elif kind == "alias":
            p["steps"].append(["alias", False])
            p["steps"].append(["filter", [["fn", "is_null", [old]]]])
        elif kind == "unrelated":
            g2 = gen.Gen(seed + len(out) + 5000, {"joins": False, "unions": False})
            c2 = g2.case(max_steps=1)
            tname = "x_" + c2["pipe"]["src"]
            c["tables"][tname] = c2["tables"][c2["pipe"]["src"]]
            c["extra_pipes"] = [{"id": "X0", "src": tname, "steps": []}]
            p["steps"].append(["mutate", [["z_", ["col", "X0@0", "a"]]]])
        else:
            g2 = gen.Gen(seed + len(out) + 9000, {"joins": False, "unions": False})
            c2 = g2.case(max_steps=1)
            t1, t2 = "x_" + c2["pipe"]["src"], "y_" + c2["pipe"]["src"]
            c["tables"][t1] = c2["tables"][c2["pipe"]["src"]]
            c["tables"][t2] = copy.deepcopy(c["tables"][t1])
            c["extra_pipes"] = [{"id": "X0", "src": t1, "steps": []}]
            p["steps"].append(["join", {"id": "Y0", "src": t2, "steps": []},
                               [["fn", "equal", [["col", "X0@0", "id"], ["col", "Y0@0", "id"]]]], "inner", None])
            expect = "ValueError"
        out.append((c, expect, kind))
    return out


def run(ctx, res):
    import scenarios
    fam = [] if ctx.replay else (scenarios.pick(scenarios.family_joins(), 300 if ctx.tier == "quick" else 10 ** 6, ctx.seed + 1)
                                 + scenarios.pick(scenarios.family_a(), 150 if ctx.tier == "quick" else 10 ** 6, ctx.seed)
                                 + scenarios.family_names() + scenarios.family_suffix())
    pipeprop.run(ctx, res, "C09", PROFILE, n_quick=300, n_thorough=6000, probe_ids=(), extra_cases=fam)
    res.coverage["scenario_grid"] = {"family": "joins + A + N (references to hidden / overwritten / suffixed columns, same-named columns across a subquery)", "cases": len(fam)}
    if ctx.replay:
        return
    n = 80 if ctx.tier == "quick" else 800
    bad = 0
    kinds = {}
    for c, expect, kind in stale_cases(ctx.seed, n):
        kinds[kind] = kinds.get(kind, 0) + 1
        for b in ("polars", "sqlite"):
            o = pipecheck.observe(c, b)
            last = [c["pipe"]["id"], len(c["pipe"]["steps"])]
            ok = o.exc == expect and o.exc_at == last
            if o.exc == "SubqueryError":
                ok = True
            if not ok and bad < 3:
                bad += 1
                res.violations.append({
                    "what": f"a stale reference ({kind}) is not rejected with {expect}: got {o.exc} at {o.exc_at}",
                    "found_input": True, "payload": {"case": c, "backend": b, "failure": {"kind": "stale_ref"},
                                                     "observed": {b: o.to_json()}}})
    res.coverage["stale_reference_stream"] = {"cases": n, "kinds": kinds, "expected": "ColumnNotFoundError (ValueError in a join condition) raised by the verb that uses the reference"}
    res.coverage["evaluations"] = res.coverage.get("evaluations", 0) + 2 * n
