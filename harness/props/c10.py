"""C10 — tables and expressions are immutable values.
Theorems: Properties/C10.v — (1) Model/Session.v: in the model every export / build_query of a table
depends only on the tree bound when the table was created, whatever happened before or in between
(history independence, any session); (2) Model/Heap.v + generated/CacheUpdate.v: the statement list of
Cache.update, re-read from /repo, only writes objects allocated during the call (frame theorem); (3) Model/HeapProg.v
+ generated/VerbEffects.v: the same for the bodies (with their loops and branches) of the verb front ends,
check_subquery, the modify_ast / verb wrappers, every map_subtree and every receiver-writing map_* method.
Tie (harness/session.py): every case = a generated pipeline + probe pipelines branching from its
earlier tables (mutate / summarize / group_by(add=True) / filter / arrange built from SHARED expression
objects: one count(), one C.<col>.sum(), one order key reused in every table, grouping state and verb
kind) is run as a busy session (A: shared objects, exports / query builds / printing interleaved,
fingerprints of all pre-existing objects compared after every call) and rebuilt in isolation (B).
A and B must give the same canonical tree, metadata, rows and query text for every table; every export
of A is compared in Coq with the reference semantics of the tree serialised when the table was created
(L1) and the final metadata with Model/Cache.v on that tree (L2)."""
import collections
import copy
import json
import random
import warnings
from pathlib import Path

import common
import findings
import gen
import pipecheck
import pipeprop
import ser
import session
from pipes import Instantiator

TRUSTED_BASE = [
    "harness/session.py fingerprint: attribute-wise structural dump of Table, Cache, AstNode, ColExpr, source frames and "
    "SQLite table contents (memo fields _dtype / _ftype of derived expressions excluded: their effect is checked through results)",
    "harness/translate.py gen_cacheupdate: statement classification of Cache.update (fail-closed)",
    "harness/translate.py gen_verbeffects: Python function -> Model/HeapProg.v program (fail-closed); a call of a function "
    "translated in the same run is a call in the model (which functions a call may enter is decided by name), TRUSTED_FUNCS / TRUSTED_METHODS "
    "(tree constructors, argument checkers, readers, the data-model hooks of Table / ColExpr) are taken to be write-free, "
    "builtin container mutators to write their receiver only, callback parameters of the map_* methods to be write-free; "
    "syntactic return-shape checks (every @modify_ast verb returns its own copy.copy(table); check_subquery returns its "
    "first argument or its own copy)",
]
ASSUMPTIONS = ["pipelines without rand(); rows compared as multisets where no arrange fixes the order"]
PROFILE = {"max_steps": 5, "joins": 0.25, "unions": 0.15}


def dry_points(case):
    """visible columns (name, dtype string) and grouping of every point of the main pipe (Polars dry run)"""
    from pydiverse.transform._internal.tree import types as T
    inst = Instantiator({"tables": case["tables"], "pipe": case["pipe"]}, "polars", {})
    out = inst.run()
    info = {}
    for key, tbl in out.points.items():
        if not key.startswith(case["pipe"]["id"] + "@"):
            continue
        try:
            cols = [(c.name, str(T.without_const(c.dtype()))) for c in tbl]
            grouped = [tbl._cache.uuid_to_name.get(u) for u in tbl._cache.partition_by]
            info[key] = (cols, grouped)
        except Exception:  # noqa: BLE001
            pass
    return info


def make_probes(case, info, r):
    cnt = ["shared", "cnt", ["fn", "count_star", []]]
    probes = []
    keys = sorted(info, key=lambda k: int(k.split("@")[1]))
    if not keys:
        return probes
    chosen = keys if len(keys) <= 4 else sorted(r.sample(keys, 4), key=lambda k: int(k.split("@")[1]))
    q = 0
    for key in chosen:
        cols, grouped = info[key]
        names = [n for n, _ in cols]
        ints = [n for n, t in cols if t.startswith("Int")]
        free = [n for n in names if n not in grouped]
        kinds = ["mutate_cnt", "summarize_cnt", "ungroup_mutate"]
        if free:
            kinds += ["groupadd_mutate", "groupadd_summarize", "group_summarize"]
        if ints:
            kinds += ["mutate_sum", "summarize_sum", "filter", "arrange", "mutate_rank", "mutate_drank"]
        for kind in r.sample(kinds, min(len(kinds), 3)):
            q += 1
            pid = f"Q{q}"
            ic = r.choice(ints) if ints else None
            fc = r.choice(free) if free else None
            sm = ["shared", f"sum_{ic}", ["fn", "sum", [["c", ic]]]] if ic else None
            oc = r.choice(names)
            # window functions whose ordering / partitioning is given BY NAME (C.<col>): one object used in several
            # tables.  rank / dense_rank give equal keys equal values, so ties in the keys leave the result determined; the
            # null placement is always given (without a marker it is documented as backend-dependent)
            sh = ["shared", f"rank_{ic}_{oc}", ["fn", "rank", [], {"partition_by": [["c", oc]],
                                                                   "arrange": [["ord", ["c", ic], True, True]]}]] if ic else None
            cs = ["shared", f"drank_{ic}_{oc}", ["fn", "dense_rank", [], {"arrange": [["ord", ["c", ic], False, False],
                                                                                      ["ord", ["c", oc], True, True]]}]] if ic else None
            steps = {
                "mutate_cnt": [["mutate", [["zz9", cnt]]]],
                "summarize_cnt": [["summarize", [["zz8", cnt]]]],
                "ungroup_mutate": [["ungroup"], ["mutate", [["zz9", cnt]]]],
                "groupadd_mutate": [["group_by", [["c", fc]], True], ["mutate", [["zz9", cnt]]]],
                "groupadd_summarize": [["group_by", [["c", fc]], True], ["summarize", [["zz8", cnt]]]],
                "group_summarize": [["group_by", [["c", fc]], False], ["summarize", [["zz8", cnt]]]],
                "mutate_sum": [["mutate", [["zz7", sm]]]],
                "mutate_rank": [["mutate", [["zz5", sh]]]],
                "mutate_drank": [["mutate", [["zz4", cs]]]],
                "summarize_sum": [["summarize", [["zz6", sm]]]],
                "filter": [["filter", [["shared", f"pos_{ic}", ["fn", "greater_than", [["c", ic], ["lit", 0]]]]]]],
                # the shared key first, then every other column: the order is total up to identical rows, so that the two
                # rows slice_head keeps are determined (ties in the shared key alone would leave them to the engine)
                "arrange": [["arrange", [["shared", f"ord_{ic}", ["ord", ["c", ic], True, True]]]
                             + [["ord", ["c", n], False, True] for n in names if n != ic]], ["slice_head", 2, 0]],
            }[kind]
            probes.append({"id": pid, "from": key, "steps": steps, "kind": kind})
    r.shuffle(probes)
    return probes


def linear_case(case, point):
    """the single pipeline that builds table `point` (main pipe prefix + probe steps), for the finding matchers"""
    pid, k = point.split("@")[0], int(point.split("@")[1]) if "@" in point else 0
    main = case["pipe"]
    if pid == main["id"]:
        return {"tables": case["tables"], "pipe": {**main, "steps": main["steps"][:k] if "@" in point else main["steps"]}}
    for p in case.get("late_pipes", []):
        if p["id"] == pid:
            j = int(p["from"].split("@")[1])
            steps = main["steps"][:j] + (p["steps"][:k] if "@" in point else p["steps"])
            return {"tables": case["tables"], "pipe": {**main, "steps": steps}}
    return case


def rows_equal(a, b, exact=False):
    if a is None or b is None:
        return a is b
    (na, ra), (nb, rb) = a, b
    if na != nb:
        return False
    if ra == rb:
        return True
    if exact:
        return False
    return sorted(map(repr, ra)) == sorted(map(repr, rb))


def run_session(case, backend, seed):
    """returns (failures, pseudo observations for Coq, stats)"""
    fails = []
    A = session.Busy(copy.deepcopy(case), backend, seed).run()
    for label, during, diff in A.mutations[:5]:
        fails.append({"kind": "mutation", "what": f"{label} changed during {during} ({diff[:160]})"})
    for kind, key, exc, msg in A.action_exc:
        # an action may legitimately fail (SQL refusal at export); it must then fail the same way in isolation
        pass
    # repeated exports / query builds of one table inside A
    for key, fin in A.final.items():
        frames = list(A.exports.get(key, []))
        if "export" in fin:
            for f in frames:
                if not rows_equal(f, fin["export"]):
                    fails.append({"kind": "reexport", "point": key,
                                  "what": f"two exports of table {key} in one session differ: {f!r:.150} vs {fin['export']!r:.150}"})
                    break
        for qt in A.queries.get(key, []):
            if "query" in fin and qt != fin["query"]:
                fails.append({"kind": "requery", "point": key, "what": f"two build_query calls on table {key} give different text"})
                break
        if key in A.canon_at_creation and A.canon_at_creation[key] != fin["canon"]:
            fails.append({"kind": "mutation", "point": key,
                          "what": f"the tree / metadata of table {key} is not what it was when the table was created"})
    # run B
    pids = [case["pipe"]["id"]] + [p["id"] for p in case.get("late_pipes", [])]
    compared = 0
    for pid in pids:
        if pid in A.out.failed:
            continue
        try:
            B, outB = session.isolated(case, backend, pid)
        except Exception as ex:  # noqa: BLE001
            fails.append({"kind": "harness", "what": f"isolated run of {pid} failed: {type(ex).__name__}: {ex}"})
            continue
        frm = {p["id"] for p in case.get("late_pipes", []) if "from" in p}
        for key, b in B.items():
            if key.endswith("@0") and key.split("@")[0] in frm:
                continue                 # the table the probe branches from: compared under its own name
            a = A.final.get(key)
            if a is None:
                if not (A.out.exc is not None):
                    fails.append({"kind": "history", "point": key,
                                  "what": f"table {key} can be built in isolation but not in the session"})
                continue
            compared += 1
            if a["canon"][0] != b["canon"][0]:
                fails.append({"kind": "history", "point": key,
                              "what": f"the tree of table {key} depends on the history: "
                                      f"{session.first_diff(eval_safe(b['canon'][0]), eval_safe(a['canon'][0]))[:200]}"})
            elif a["canon"][1] != b["canon"][1]:
                fails.append({"kind": "history", "point": key,
                              "what": f"the metadata of table {key} depends on the history: "
                                      f"{session.first_diff(eval_safe(b['canon'][1]), eval_safe(a['canon'][1]))[:200]}"})
            if ("export" in a) != ("export" in b):
                fails.append({"kind": "history", "point": key,
                              "what": f"export of table {key}: {a.get('export_exc', 'ok')} in the session, "
                                      f"{b.get('export_exc', 'ok')} in isolation"})
            elif "export" in a and not rows_equal(a["export"], b["export"]):
                fails.append({"kind": "history", "point": key,
                              "what": f"the rows of table {key} depend on the history: {a['export']!r:.160} vs isolated {b['export']!r:.160}"})
            if a.get("query") != b.get("query"):
                fails.append({"kind": "history", "point": key, "what": f"the query text of table {key} depends on the history"})
        for fpid, (exc, msg, at) in A.out.failed.items():
            pass
    # side pipes that fail in the session must fail in isolation too
    for fpid, (exc, msg, at) in A.out.failed.items():
        if exc == "<not built>":         # branches from a table the main pipe never reached (rejected before)
            continue
        try:
            _, outB = session.isolated(case, backend, fpid)
            excB = outB.exc or (outB.failed.get(fpid) or (None,))[0]
        except Exception as ex:  # noqa: BLE001
            excB = f"harness:{type(ex).__name__}"
        if excB != exc:
            fails.append({"kind": "history", "point": fpid,
                          "what": f"probe {fpid} raises {exc} in the session but {excB} in isolation ({(msg or '')[:120]})"})
    # pseudo observations for L1 / L2
    obs = []
    for key, (a, um, sch) in A.created.items():
        fin = A.final.get(key)
        if fin is None or "export" not in fin:
            continue
        if not (key.split("@")[0] != case["pipe"]["id"] or key == max(
                (k for k in A.created if k.startswith(case["pipe"]["id"] + "@")), key=lambda k: int(k.split("@")[1]))):
            continue           # main pipe: the last table only; probes: every table
        o = pipecheck.Obs(backend)
        o.ast_coq, o.schema_coq = a, sch
        o.names, o.rows = fin["export"]
        try:
            o.cache_coq = ser.cache_to_coq(A.out.points[key]._cache, um)
            ser.frame_to_coq(o.names, o.rows)
        except Exception:  # noqa: BLE001   (values outside the model, e.g. lists)
            continue
        o.n_markers = a.count("SubqueryMarker")
        obs.append((key, o))
    kinds = {p["id"]: p.get("kind", "?") for p in case.get("late_pipes", [])}
    failed_kinds = collections.Counter(f"{kinds.get(pid, 'main')}:{exc}" for pid, (exc, msg, at) in A.out.failed.items())
    return fails, obs, {"tables_compared": compared, "actions": len(A.log), "probes_failed": len(A.out.failed),
                        "tracked_objects": len(A.objs), "failed_kinds": failed_kinds}


def eval_safe(s):
    try:
        return eval(s, {"__builtins__": {}}, {})          # repr of nested tuples / strings produced by session.fp
    except Exception:  # noqa: BLE001
        return s


def run(ctx, res):
    listed = pipeprop.listed_findings()
    n = 40 if ctx.tier == "quick" else 1200
    cases, seeds, origin = [], [], []
    if ctx.replay:
        rp = json.loads(Path(ctx.replay).read_text())
        if "case" in rp:
            cases.append(rp["case"])
            seeds.append(rp.get("session_seed", 0))
            origin.append("replay")
        n = 0
    cdir = common.VERIF / "corpus" / "C10"
    if cdir.is_dir():
        for f in sorted(cdir.glob("*.json")):
            d = json.loads(f.read_text())
            cases.append(d["case"])
            seeds.append(d.get("session_seed", 0))
            origin.append(f"corpus/{f.name}")
    g = gen.Gen(ctx.seed + 1000, PROFILE)
    r = random.Random(ctx.seed + 1001)
    for i in range(n):
        c = g.case()
        try:
            with warnings.catch_warnings():
                warnings.simplefilter("ignore")
                info = dry_points(c)
        except Exception:  # noqa: BLE001
            info = {}
        c["late_pipes"] = make_probes(c, info, r)
        cases.append(c)
        seeds.append(r.randrange(10 ** 6))
        origin.append(f"gen:{ctx.seed + 1000}:{i}")
    stats = collections.Counter()
    probe_failures = collections.Counter()       # by probe kind and exception class: a kind that always fails is a hole
    pseudo_cases, pseudo_obs, pseudo_src = [], [], []
    reported = 0
    seen = set()
    hit = collections.Counter()
    for i, (c, sd) in enumerate(zip(cases, seeds)):
        for b in ("polars", "sqlite"):
            try:
                with warnings.catch_warnings():
                    warnings.simplefilter("ignore")
                    fails, obs, st = run_session(c, b, sd)
            except Exception as ex:  # noqa: BLE001
                stats[f"{b}:harness error {type(ex).__name__}"] += 1
                if reported < 4 and ("harness", type(ex).__name__) not in seen:
                    seen.add(("harness", type(ex).__name__))
                    reported += 1
                    res.violations.append({"what": f"{b}: session harness failed: {type(ex).__name__}: {str(ex)[:200]} [{origin[i]}]",
                                           "found_input": False,
                                           "payload": {"correspondence": "C10 session", "case": c, "backend": b, "session_seed": sd}})
                continue
            stats[f"{b}:sessions"] += 1
            for fk, v in st.pop("failed_kinds").items():
                probe_failures[f"{b}:{fk}"] += v
            for k, v in st.items():
                stats[f"{b}:{k}"] += v
            for key, o in obs:
                pseudo_cases.append(c)
                pseudo_obs.append({b: o})
                pseudo_src.append((i, b, key))
            for f in fails:
                stats[f"{b}:fail:{f['kind']}"] += 1
                fid = (findings.match(linear_case(c, f.get("point", c["pipe"]["id"])), b,
                                      {"kind": "rows", "exc": "", "msg": f["what"]}, listed) if f["kind"] == "history" else None)
                if fid is not None:
                    hit[fid] += 1
                    continue
                sig = (b, f["kind"])
                if sig in seen or reported >= 4:
                    continue
                seen.add(sig)
                reported += 1
                res.violations.append({"what": f"{b}: {f['what'][:300]} [{origin[i]}]", "found_input": f["kind"] != "harness",
                                       "payload": {"case": c, "backend": b, "session_seed": sd, "failure": f, "origin": origin[i]}})
    # ---- L1 / L2 in Coq on the session's tables
    verdicts, errors = ({}, [])
    if pseudo_cases:
        verdicts, errors = pipecheck.eval_cases("c10", pseudo_cases, pseudo_obs)
        l2 = dict(pipecheck.L2)
        if not ctx.build_ok and errors:
            verdicts, errors, l2 = {}, [], {}
        for e in errors:
            res.violations.append({"what": "correspondence cases did not evaluate in Coq", "found_input": False,
                                   "payload": {"correspondence": "C10 L1", "error": e}})
        for (j, b), v in verdicts.items():
            i, bb, key = pseudo_src[j]
            if b != bb:
                continue
            stats[f"{b}:L1:{ {0: 'ok', 1: 'names', 2: 'rows', 3: 'out_of_domain'}.get(v, v)}"] += 1
            cd = l2.get((j, b), (0, 0))[0]
            if cd:
                stats[f"{b}:L2 cache mismatch"] += 1
            if v in (1, 2) or cd:
                f = {"kind": "names" if v == 1 else "rows" if v == 2 else "l2_cache", "exc": None, "msg": "",
                     "code": cd, "markers": getattr(pseudo_obs[j][b], "n_markers", 0)}
                fid = findings.match(linear_case(cases[i], key), b, f, listed)
                if fid is not None:
                    hit[fid] += 1
                    continue
                sig = (b, "L1" if v in (1, 2) else "L2")
                if sig in seen or reported >= 4:
                    continue
                seen.add(sig)
                reported += 1
                what = (f"table {key}: the export at the end of the session differs from the reference semantics of the tree "
                        f"serialised when the table was created" if v in (1, 2) else
                        f"table {key}: the metadata at the end of the session is not Model/Cache.v of the tree serialised at creation")
                res.violations.append({"what": f"{b}: {what} [{origin[i]}]", "found_input": True,
                                       "payload": {"case": cases[i], "backend": b, "session_seed": seeds[i], "point": key,
                                                   "origin": origin[i]}})
    for fid, k in sorted(hit.items()):
        if "C10" in listed[fid].get("properties", [listed[fid]["property"]]):
            res.known.append(f"{fid} {listed[fid]['what'][:200]} ({k} comparisons)")
        else:       # a value defect of another property met by a probe: not an immutability failure, discarded
            res.coverage.setdefault("discarded_findings_of_other_properties", {})[fid] = k
    ok = sum(1 for v in verdicts.values() if v == 0)
    res.traces += ok
    cov = res.coverage
    cov["evaluations"] = sum(v for k, v in stats.items() if k.endswith(":tables_compared")) + len(verdicts)
    cov["distinct_nontrivial"] = len({pipeprop.case_key(c) for c in cases})
    cov["sessions"] = dict(stats)
    cov["probe_failures_by_kind"] = dict(probe_failures)
    cov["probe_kinds"] = dict(collections.Counter(p.get("kind", "?") for c in cases for p in c.get("late_pipes", [])))
    cov["partial"] = ["the frame theorems cover Cache.update, preprocess_arg, the verb front ends, check_subquery, the "
                      "tree-rewriting and cloning methods and the calls among them; callees outside that table are trusted by name; "
                      "the backend compilers are not translated: their immutability is decided by the session runs "
                      "(fingerprints, A vs B)"]
