"""C18 — Python literals and patterns reach SQL as data.
Theorems: Properties/C18.v (one-token lemma for quoted literals, LIKE with autoescape).  Tie: (a) text:
build_query() of SQLite pipelines with nasty literals contains the model's rendering of the literal and
has the same skeleton (statement text with string literals removed) as with a neutral literal;
(b) L1: equality, is_in, concatenation, starts_with / ends_with / literal contains, replace_all, case
and constant mutate over an alphabet of SQL and LIKE metacharacters give the Polars = reference result."""
import itertools
import random
import re

import pipecheck
import pipeprop
from props.c03 import case, col, fn, table

TRUSTED_BASE = ["SQLAlchemy's literal renderer is third-party: Model/SqlText.quote is tied to it by text comparison only",
                "Model/Ops string functions (byte-wise prefix / contains / replace) are the specification of the values"]
ASSUMPTIONS = ["one letter case only (finding F13: SQLite LIKE is ASCII case-insensitive)", "valid UTF-8 strings"]

ATOMS = ["a", "b", "%", "_", "/", "\\", "'", "''", '"', "--", ";", "/*", "*/", "\n", "é", "a%", "a_b", "b/", "x';--",
         "100%", " ", "\t", "(", ")", "日本", "?", ":p", "{x}"]


def strings(r, n):
    out = ["", "'", "''", "a'b", "'; drop table t; --", "/*c*/", "%", "_", "/", "//", "%/", "a\nb", "\\", "\\'"]
    while len(out) < n:
        out.append("".join(r.choice(ATOMS) for _ in range(r.randint(1, 3))))
    return out


def quote(s):
    return "'" + s.replace("'", "''") + "'"


def skeleton(sql):
    """statement text with every string literal (quote-doubling rule) replaced by a marker"""
    out, i, n = [], 0, len(sql)
    while i < n:
        if sql[i] == "'":
            i += 1
            while i < n:
                if sql[i] == "'":
                    if i + 1 < n and sql[i + 1] == "'":
                        i += 2
                        continue
                    i += 1
                    break
                i += 1
            out.append("<S>")
        else:
            out.append(sql[i])
            i += 1
    return "".join(out)


def run(ctx, res):
    r = random.Random(ctx.seed + 18)
    nstr = 40 if ctx.tier == "quick" else 300
    lits = strings(r, nstr)
    data = strings(random.Random(ctx.seed + 81), 30)
    s, u = col("s"), col("u")
    cases = []
    rows = [(a, b) for a, b in zip(data, reversed(data))] + [(None, "a"), ("a%", None)]
    if not ctx.replay:
        for i in range(0, len(lits), 4):
            chunk = lits[i:i + 4]
            defs = []
            for lit in chunk:
                L = ["lit", lit]
                defs += [fn("equal", s, L), fn("is_in", s, L, u), fn("add", s, L), fn("add", L, u),
                         fn("str_starts_with", s, L), fn("str_ends_with", s, L),
                         fn("str_contains", s, L, ["lit", False], ["lit", False]),
                         ["case", [[fn("equal", s, L), L]], ["lit", "other"]], L,
                         fn("coalesce", s, L), fn("less_than", s, L)]
                if lit != "":
                    defs.append(fn("str_replace_all", s, L, ["lit", "<" + lit[:1] + ">"]))
                    defs.append(fn("str_replace_all", s, ["lit", "a"], L))
            cases.append(case(table([["s", "String"], ["u", "String"]], rows), defs))
        # numbers, booleans, null
        cases.append(case(table([["s", "String"], ["u", "String"]], rows[:5]),
                          [["lit", -5], ["lit", 0], ["lit", True], ["lit", False], ["lit", None], ["lit", -2.5],
                           fn("add", ["lit", -5], ["lit", 3]), fn("sub", ["lit", 2], ["lit", -3]),
                           ["case", [[fn("is_null", s), ["lit", -1]]], ["lit", 1]],
                           # negative numbers behind operators (a `-` directly in front of an inline `-1` would read `--1`)
                           fn("neg", ["lit", -1]), fn("neg", ["lit", -2.5]), fn("neg", fn("neg", ["lit", -3])),
                           fn("mul", fn("neg", ["lit", -2]), ["lit", 3]), fn("sub", ["lit", -2], fn("neg", ["lit", -3])),
                           fn("sub", fn("str_len", s), fn("neg", ["lit", -1])), fn("pos", ["lit", -4]),
                           fn("add", fn("neg", ["lit", -1]), fn("str_len", s)),
                           ["case", [[fn("greater_than", fn("str_len", s), fn("neg", ["lit", -1])), fn("neg", ["lit", -7])]], ["lit", 0]]]))
    pipeprop.run(ctx, res, "C18", {}, n_quick=0, n_thorough=0, extra_cases=cases, probe_ids=("F13", "F21"),
                 label="literal grid")
    # ---- text level: the literal is rendered as the model says, and the statement keeps its structure
    bad = 0
    checked = 0
    neutral_case = case(table([["s", "String"], ["u", "String"]], rows[:3]),
                        [fn("equal", s, ["lit", "x"]), fn("add", s, ["lit", "x"]), fn("str_starts_with", s, ["lit", "q"])])

    def query_of(c):
        from pipes import Instantiator
        from pydiverse.transform import extended as X
        out = Instantiator(c, "sqlite", {}).run()
        return out.table >> X.build_query()
    try:
        sk0 = skeleton(query_of(neutral_case))
    except Exception as ex:  # noqa: BLE001
        sk0 = None
        res.violations.append({"what": f"build_query failed on the neutral case: {type(ex).__name__}", "found_input": False,
                               "payload": {"error": str(ex)[:300]}})
    for lit in lits if not ctx.replay else []:
        c = case(table([["s", "String"], ["u", "String"]], rows[:3]),
                 [fn("equal", s, ["lit", lit]), fn("add", s, ["lit", lit]), fn("str_starts_with", s, ["lit", "q"])])
        try:
            q = query_of(c)
        except Exception as ex:  # noqa: BLE001
            q = None
            if bad < 3:
                bad += 1
                res.violations.append({"what": f"build_query raised {type(ex).__name__} for the literal {lit!r}",
                                       "found_input": True, "payload": {"case": c, "literal": lit}})
            continue
        checked += 1
        ok_render = quote(lit) in q
        ok_skel = sk0 is None or skeleton(q) == sk0
        if not (ok_render and ok_skel) and bad < 3:
            bad += 1
            res.violations.append({
                "what": f"literal {lit!r}: " + ("rendering differs from Model/SqlText.quote" if not ok_render
                                                 else "the statement skeleton changes with the literal"),
                "found_input": True, "payload": {"case": c, "literal": lit, "query": q, "expected_literal": quote(lit)}})
    # numbers: no comment syntax may appear in the statement, whatever the signs
    if not ctx.replay:
        cnum = case(table([["s", "String"]], [("a",), ("bb",), (None,)]),
                    [fn("neg", ["lit", -1]), fn("sub", fn("str_len", s), fn("neg", ["lit", -1])), fn("neg", fn("neg", ["lit", -3])),
                     fn("neg", ["lit", -2.5]), fn("mul", ["lit", -1], fn("neg", ["lit", -2]))])
        try:
            qn = query_of(cnum)
            if "--" in qn or "/*" in qn:
                res.violations.append({"what": "a negative number behind a unary minus is rendered as comment syntax (`--`)",
                                       "found_input": True, "payload": {"case": cnum, "query": qn}})
        except Exception as ex:  # noqa: BLE001
            res.violations.append({"what": f"build_query raised {type(ex).__name__} for negative numeric literals",
                                   "found_input": True, "payload": {"case": cnum}})
    res.coverage["text_checks"] = {"literals": checked, "alphabet": ATOMS}
    res.coverage["evaluations"] = res.coverage.get("evaluations", 0) + checked
    res.coverage["partial"] = ["SQLAlchemy's renderer is tied by text comparison, not proved",
                               "SQLite's default LIKE is ASCII case-insensitive (F13): the main stream uses one letter case"]
