"""C08 — SQL: a verb needing a subquery raises SubqueryError or is compiled correctly.
Theorems: Properties/C08.v on Model/Cache.requires_subquery.  Tie: L2 (every recorded decision of the
real Cache.requires_subquery = the model's, including refused applications), L1 (every accepted
SQLite pipeline = reference = Polars), and the alias oracle: inserting alias(keep_col_refs=True)
directly before a refused verb makes that verb accepted."""
import copy

import pipecheck
import pipeprop

TRUSTED_BASE = ["Model/Cache.v (hand transcription of pipe/cache.py) tied by L2 on every verb application",
                "Model/RefSem.v is the specification of the results (L1)"]
ASSUMPTIONS = ["value domain of DESIGN.md section 4"]
PROFILE = {
    "verbs": {"mutate": 6, "filter": 5, "select": 1.5, "drop": 0.5, "rename": 1, "arrange": 3, "slice_head": 3,
              "group_by": 3, "ungroup": 1, "summarize": 3, "alias": 2.5, "join": 1.0, "union": 0.6},
    "window": 0.45, "max_steps": 7,
    "shapes": {"typical": 5, "nulls": 3, "dups": 3, "single": 1, "empty": 1, "tall": 0.1},
}


def shift_refs(x, pid, k):
    """After inserting a step at position k of pipe pid, point references >= k move by one."""
    if isinstance(x, list):
        if len(x) == 3 and x[0] == "col" and isinstance(x[1], str) and x[1].startswith(pid + "@"):
            j = int(x[1].split("@")[1])
            return ["col", f"{pid}@{j + 1 if j >= k else j}", x[2]]
        return [shift_refs(y, pid, k) for y in x]
    if isinstance(x, dict):
        return {a: shift_refs(b, pid, k) for a, b in x.items()}
    return x


def run(ctx, res):
    import scenarios
    big = ctx.tier != "quick"
    fam = [] if ctx.replay else (scenarios.pick(scenarios.family_a(), 10 ** 6 if big else 450, ctx.seed)
                                 + scenarios.pick(scenarios.family_slices(), 10 ** 6 if big else 120, ctx.seed + 1))
    cases, obs, verdicts = pipeprop.run(ctx, res, "C08", PROFILE, n_quick=300, n_thorough=6000,
                                        probe_ids=("F09", "F16", "F39"), l2_steps=True, extra_cases=fam)
    res.coverage["scenario_grid"] = {"family": "A (prefix x alias x verb x follower) + slice chains (verbs that never need a subquery are compiled correctly)", "cases": len(fam)}
    # alias oracle
    tried = unblocked = 0
    for c, o in zip(cases, obs):
        so = o.get("sqlite")
        if so is None or so.exc != "SubqueryError" or so.exc_at[0] != c["pipe"]["id"]:
            continue
        k = so.exc_at[1]            # 1-based step index that raised
        c2 = copy.deepcopy(c)
        steps = c2["pipe"]["steps"]
        pid = c2["pipe"]["id"]
        steps[:] = [shift_refs(s, pid, k) for s in steps]
        st = steps[k - 1]
        if st[0] in ("join", "union"):
            # the refusal may stem from either operand: alias both, directly before the verb
            rp = st[1]
            nr = len(rp["steps"])
            steps[k - 1] = shift_refs(st, rp["id"], nr + 1)
            steps[k - 1][1]["steps"].append(["alias", True])
        steps.insert(k - 1, ["alias", True])
        o2 = pipecheck.observe(c2, "sqlite")
        tried += 1
        if o2.exc == "SubqueryError" and o2.exc_at == [pid, k + 1]:
            if tried - unblocked <= 3:
                res.violations.append({
                    "what": "inserting alias() directly before a verb that raised SubqueryError does not make it accepted",
                    "found_input": True, "payload": {"case": c2, "backend": "sqlite", "failure": {"kind": "alias_oracle"},
                                                     "observed": {"sqlite": o2.to_json()}}})
        else:
            unblocked += 1
    res.coverage["alias_oracle"] = {"refused_verbs_retried_with_alias": tried, "accepted_after_alias": unblocked}
