"""C02 — Single-table row-level verbs compute their documented meaning.
Theorems: Properties/C02.v (reference semantics of select/drop/rename/mutate/filter/slice_head/
group_by/ungroup/alias).  Tie: L1 — export on Polars and SQLite of generated row-verb pipelines
equals export_ref (sem_ref db ast) on the real resolved AST, evaluated in Coq."""
import pipeprop

TRUSTED_BASE = [
    "Model/RefSem.v + Model/Ops.v are the specification (written from the docstrings); harness/ser.py prints the real AST",
    "the tie is L1 (results) on generated pipelines: the backends' compilers are exercised, not modelled, in this check",
]
ASSUMPTIONS = ["value domain of DESIGN.md section 4 (cases outside are discarded and counted)"]

PROFILE = {
    "verbs": {"mutate": 6, "filter": 4, "select": 3, "drop": 2, "rename": 3, "arrange": 3, "slice_head": 3,
              "group_by": 1.5, "ungroup": 1, "summarize": 0, "alias": 1.5, "join": 0, "union": 0},
    "window": 0.0, "joins": False, "unions": False, "max_steps": 7,
    "shapes": {"typical": 5, "nulls": 3, "dups": 2, "single": 1, "empty": 1.5, "tall": 0.3},
}


def run(ctx, res):
    import scenarios
    fam = [] if ctx.replay else (scenarios.pick(scenarios.family_slices(), 200 if ctx.tier == "quick" else 10 ** 6, ctx.seed)
                                 + scenarios.family_names())
    pipeprop.run(ctx, res, "C02", PROFILE, n_quick=300, n_thorough=6000, probe_ids=(), extra_cases=fam)
    res.coverage["scenario_grid"] = {"family": "slice_head chains (n1, k1, n2, k2[, n3, k3])", "cases": len(fam)}
