"""C11 — Table metadata agrees with the exported frame.
Oracle (every pipeline check runs it, this one with a history-heavy profile): columns(), iteration,
len, `in`, dir and the metadata recomputed from the whole AST (Cache.from_ast) agree with the
exported frame of both backends in names, order and count; the frame itself equals the reference."""
import pipeprop

TRUSTED_BASE = ["Model/RefSem.v `sel` (visible names in output order) is the specification of the exported names",
                "L1 tie on generated histories; metadata accessors are read through the public API"]
ASSUMPTIONS = ["value domain of DESIGN.md section 4"]
PROFILE = {
    "verbs": {"mutate": 5, "filter": 0.5, "select": 4, "drop": 2, "rename": 4, "arrange": 0.5, "slice_head": 0.2,
              "group_by": 2.5, "ungroup": 0.5, "summarize": 3, "alias": 2, "join": 1.5, "union": 1},
    "window": 0.1, "max_steps": 7, "overwrite_group": 0.5,
    "shapes": {"typical": 5, "nulls": 1, "dups": 1, "single": 1, "empty": 1, "tall": 0},
}


def run(ctx, res):
    import scenarios
    fam = [] if ctx.replay else (scenarios.pick(scenarios.family_grouping(), 250 if ctx.tier == "quick" else 10 ** 6, ctx.seed)
                                 + scenarios.pick(scenarios.family_a(), 150 if ctx.tier == "quick" else 10 ** 6, ctx.seed + 2)
                                 + scenarios.family_suffix() + scenarios.family_names())
    pipeprop.run(ctx, res, "C11", PROFILE, n_quick=350, n_thorough=8000, probe_ids=(), extra_cases=fam)
    res.coverage["scenario_grid"] = {"family": "grouping sequences (add=True, reordering) x summarize names + A", "cases": len(fam)}
