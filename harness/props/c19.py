"""C19 — every accepted pipeline compiles on every SQL dialect; every accepted overload has an
implementation or a NotSupportedError on every backend.
Theorems: Properties/C19.v over generated/ImplReg.v (the lookup outcome of every backend x operator x
declared overload, re-read from /repo on every run).
Tie / search for failing inputs:
 (A) TableImpl.get_impl on EVERY argument tuple of the C13 enumeration that the type checker accepts
     (about 60 000 tuples) x every importable backend: implementation or NotSupportedError;
 (B) operator compile grid: every operator x declared overload in a mutate / summarize / arrange on
     SQLite, PostgreSQL and SQL Server (offline engines, harness/dialects.py): build_query gives text
     or NotSupportedError;
 (C) literal grid (ints, floats incl. nan / inf, strings, bool, None, date, datetime, time, timedelta);
 (D) generated pipelines (the broad generator of C01) on the three dialects: text or NotSupportedError
     / SubqueryError, the same text from a second build_query, from a rebuilt pipeline and under other
     PYTHONHASHSEEDs, one statement (no `;` outside literals, balanced parentheses, starts with
     SELECT / WITH); on SQLite the text is also prepared (EXPLAIN)."""
import collections
import datetime as dt
import itertools
import json
import os
import subprocess
import sys
import tempfile
import uuid
import warnings
from pathlib import Path

import c19_texts
import common
import findings
import gen
import pipeprop
from props.c18 import skeleton

TRUSTED_BASE = [
    "the SQL compilers are not modelled: the pipeline part of C19 is decided by running build_query (partial)",
    "PostgreSQL / SQL Server engines are offline (stub DBAPI modules, harness/dialects.py): text generation only; DuckDB and "
    "DB2 drivers are not importable in this sandbox",
    "harness/translate.py gen_implreg (ImplReg.v) and the enumeration of harness/impl_c13.py",
]
ASSUMPTIONS = ["known findings F07, F19, F28, F40 are avoided by generator preconditions and re-demonstrated by probes"]
REFUSALS = {"NotSupportedError", "SubqueryError"}
REJECTIONS = {"ColumnNotFoundError", "DataTypeError", "FunctionTypeError", "ValueError", "TypeError", "SubqueryError",
              "NotSupportedError"}


# ------------------------------------------------------------------------------------------- (A)
def lookup_enumeration(res, full):
    import impl_c13
    from pydiverse.transform._internal.errors import NotSupportedError
    from pydiverse.transform._internal.ops.op import Ftype
    from pydiverse.transform._internal.tree.col_expr import Col, ColFn
    from translate import all_operators, impl_backends, json_to_dtype

    backends = list(impl_backends())
    optional = []
    for mod, cls in (("duckdb", "DuckDbImpl"), ("ibm_db2", "IbmDb2Impl")):
        try:
            m = __import__(f"pydiverse.transform._internal.backend.{mod}", fromlist=[cls])
            backends.append((cls[:-4], getattr(m, cls)))
            optional.append(cls)
        except Exception:  # noqa: BLE001
            pass
    cc = {}

    def col(tj):
        k = json.dumps(tj)
        if k not in cc:
            cc[k] = Col("x", None, uuid.uuid1(), json_to_dtype(tj), Ftype.ELEMENT_WISE)
        return cc[k]
    counts = collections.Counter()
    n = acc = bad = 0
    for opvar, op in all_operators():
        arity = len(op.signatures[0].types)
        var = any(s.is_vararg for s in op.signatures)
        for k in impl_c13.arg_counts(arity, var):
            if k < 0:
                continue
            doms = impl_c13.domains(k)
            if not full and k >= 3:
                doms = [impl_c13.U4] * k
            for tup in itertools.product(*doms):
                n += 1
                try:
                    ColFn(op, *[col(t) for t in tup]).dtype()
                except Exception:  # noqa: BLE001
                    continue
                acc += 1
                tys = tuple(col(t).dtype() for t in tup)
                for bn, B in backends:
                    try:
                        f = B.get_impl(op, tys)
                        o = "impl" if callable(f) else "not-callable"
                    except NotSupportedError:
                        o = "NotSupportedError"
                    except Exception as ex:  # noqa: BLE001
                        o = type(ex).__name__
                    counts[f"{bn}:{o}"] += 1
                    if o not in ("impl", "NotSupportedError"):
                        bad += 1
                        if bad <= 2:
                            res.violations.append({
                                "what": f"{bn}Impl.get_impl({opvar}, {list(tup)}) on an accepted overload: {o}",
                                "found_input": True,
                                "payload": {"backend": bn, "operator": opvar, "argument_types": list(tup), "outcome": o,
                                            "replay": "ColFn(op, *cols).dtype() succeeds; <Backend>Impl.get_impl(op, dtypes) raises"}})
    res.coverage["impl_lookup"] = {"tuples_enumerated": n, "accepted": acc, "backends": [b for b, _ in backends],
                                   "optional_backends_importable": optional, "outcomes": dict(counts)}
    res.coverage["evaluations"] = res.coverage.get("evaluations", 0) + acc * len(backends)
    res.traces += acc * len(backends)


# ------------------------------------------------------------------------------------------- (B) (C)
LIT = {"Int64": 3, "Float64": 1.5, "String": "a", "Bool": True, "Date": dt.date(2020, 1, 2),
       "Datetime": dt.datetime(2020, 1, 2, 3, 4, 5), "Duration": dt.timedelta(days=1, seconds=5), "Time": dt.time(1, 2, 3)}
LITS = [3, -3, 0, 2 ** 40, -2 ** 62, 1.5, -0.0, 1e300, float("nan"), float("inf"), -float("inf"), "a'b", "", "%_/", True, False,
        None, dt.date(2020, 1, 2), dt.datetime(2020, 1, 2, 3, 4, 5, 678), dt.timedelta(days=1, seconds=5),
        dt.timedelta(0), dt.time(1, 2, 3)]


def wide_table(dialect):
    import sqlalchemy as sqa
    import dialects
    import pydiverse.transform as pdt
    sqt = {"Int64": sqa.BigInteger, "Float64": sqa.Double, "String": sqa.String, "Bool": sqa.Boolean, "Date": sqa.Date,
           "Datetime": sqa.DateTime, "Duration": sqa.Interval, "Time": sqa.Time}
    if dialect == "sqlite":
        sqt = {k: v for k, v in sqt.items() if k not in ("Duration", "Time")}   # no such column types on SQLite
    cols = [sqa.Column(f"{ty.lower()}{i}", sqt[ty]()) for ty in sqt for i in range(3)]
    t = sqa.Table("wide", sqa.MetaData(), *cols)
    if dialect == "sqlite":
        e = sqa.create_engine("sqlite://")
        t.metadata.create_all(e)
        return pdt.Table("wide", pdt.SqlAlchemy(e)), set(sqt)
    return pdt.Table(t, pdt.SqlAlchemy(dialects.engine(dialect))), set(sqt)


def check_text(q):
    """None or a description of why the text is not one SELECT statement"""
    if not isinstance(q, str):
        return f"build_query returned {type(q).__name__}"
    sk = skeleton(q)
    if ";" in sk.rstrip().rstrip(";"):
        return "`;` outside a string literal"
    head = sk.lstrip().lstrip("(").lstrip()[:6].upper()
    if not (head.startswith("SELECT") or head.startswith("WITH")):
        return f"does not start with SELECT / WITH: {sk[:30]!r}"
    depth = 0
    for ch in sk:
        depth += ch == "("
        depth -= ch == ")"
        if depth < 0:
            return "unbalanced parentheses"
    if depth != 0:
        return "unbalanced parentheses"
    return None


def operator_grid(res):
    import pydiverse.transform as pdt
    from pydiverse.transform import extended as X
    from pydiverse.transform._internal.ops.op import Ftype
    from pydiverse.transform._internal.tree import types as T
    from pydiverse.transform._internal.tree.col_expr import ColFn
    from translate import all_operators, concrete_signatures, dtype_to_json
    counts = collections.Counter()
    bad = 0
    markers = {"nulls_first", "nulls_last", "ascending", "descending"}
    for d in c19_texts.DIALECTS:
        tbl, avail = wide_table(d)
        for opvar, op in all_operators():
            for tys in concrete_signatures(op):
                if op.return_type(list(tys)) is None:
                    continue
                names = [type(T.without_const(t)).__name__ for t in tys]
                if any(nm not in avail or nm not in LIT for nm in names):
                    counts[f"{d}:skipped (no such column type)"] += 1
                    continue
                for nested in (False, True):
                    used = collections.Counter()
                    args = []
                    for ty, nm in zip(tys, names):
                      if T.is_const(ty):
                          args.append(LIT[nm])
                      else:
                          c = tbl[f"{nm.lower()}{used[nm] % 3}"]
                          if nested:      # an operand that is itself compiled to an (often untyped) SQL function
                              c2 = tbl[f"{nm.lower()}{(used[nm] + 1) % 3}"]
                              c = (c | c2) if nm == "Bool" else pdt.max(c, c2) if nm not in ("Duration", "Time") else c
                          args.append(c)
                          used[nm] += 1
                    stage = "verb"
                    try:
                        with warnings.catch_warnings():
                            warnings.simplefilter("ignore")
                            kw = {"arrange": [tbl.int640]} if op.ftype == Ftype.WINDOW else {}
                            if args and not any(isinstance(a, pdt.ColExpr) for a in args):
                                args[0] = pdt.lit(args[0])
                            e = ColFn(op, *args, **kw)
                            if opvar in markers:
                                q = tbl >> X.arrange(e)
                            elif op.ftype == Ftype.AGGREGATE:
                                q = tbl >> X.summarize(z=e)
                            else:
                                q = tbl >> X.mutate(z=e)
                            stage = "build_query"
                            txt = q >> X.build_query()
                        why = check_text(txt)
                        o = "text" if why is None else "malformed"
                    except Exception as ex:  # noqa: BLE001
                        o, why = type(ex).__name__, str(ex)[:200]
                    counts[f"{d}:{o}"] += 1
                    ok = o == "text" or o in REFUSALS or (stage == "verb" and o in REJECTIONS)
                    if not ok:
                        bad += 1
                        if bad <= 3:
                            res.violations.append({
                                "what": f"{d}: `{opvar}`{' over nested operands' if nested else ''} with argument types {[dtype_to_json(t) for t in tys]} in an accepted "
                                        f"pipeline: build_query {o} ({why})",
                                "found_input": True,
                                "payload": {"dialect": d, "operator": opvar, "argument_types": [dtype_to_json(t) for t in tys],
                                            "stage": stage, "outcome": o, "detail": why,
                                            "replay": "harness/props/c19.py operator_grid: table `wide` (three columns per type), "
                                                      "mutate / summarize / arrange of ColFn(op, columns..., const parameters as literals)"}})
    res.coverage["operator_grid"] = dict(counts)
    res.coverage["evaluations"] = res.coverage.get("evaluations", 0) + sum(counts.values())
    res.traces += sum(counts.values())


def literal_grid(res):
    import pydiverse.transform as pdt
    from pydiverse.transform import extended as X
    counts = collections.Counter()
    bad = 0
    for d in c19_texts.DIALECTS:
        tbl, _ = wide_table(d)
        for v in LITS:
            for how in ("mutate", "filter", "case", "coalesce"):
                stage = "verb"
                try:
                    with warnings.catch_warnings():
                        warnings.simplefilter("ignore")
                        if how == "mutate":
                            q = tbl >> X.mutate(z=pdt.lit(v))
                        elif how == "filter":
                            q = tbl >> X.mutate(z=pdt.lit(v)) >> X.filter(pdt.C.z == v)
                        elif how == "case":
                            q = tbl >> X.mutate(z=pdt.when(tbl.int640 == 1).then(v).otherwise(None))
                        else:
                            q = tbl >> X.mutate(z=pdt.coalesce(pdt.lit(None), v))
                        stage = "build_query"
                        txt = q >> X.build_query()
                    why = check_text(txt)
                    o = "text" if why is None else "malformed"
                except Exception as ex:  # noqa: BLE001
                    o, why = type(ex).__name__, str(ex)[:200]
                counts[f"{d}:{o}"] += 1
                ok = o == "text" or o in REFUSALS or (stage == "verb" and o in REJECTIONS)
                if not ok:
                    bad += 1
                    if bad <= 3:
                        res.violations.append({
                            "what": f"{d}: literal {v!r} in {how}: build_query {o} ({why})", "found_input": True,
                            "payload": {"dialect": d, "literal": repr(v), "how": how, "stage": stage, "outcome": o, "detail": why}})
    res.coverage["literal_grid"] = dict(counts)
    res.coverage["evaluations"] = res.coverage.get("evaluations", 0) + sum(counts.values())


# ------------------------------------------------------------------------------------------- (D)
def other_seed(cases, seed):
    """outcomes under another PYTHONHASHSEED (subprocess)"""
    with tempfile.TemporaryDirectory(dir=common.VERIF / "coq" / "cases") as td:
        fi, fo = Path(td) / "in.json", Path(td) / "out.json"
        fi.write_text(json.dumps(cases))
        env = dict(os.environ, PYTHONHASHSEED=str(seed))
        p = subprocess.run([sys.executable, "-W", "ignore", str(common.VERIF / "harness" / "c19_texts.py"), str(fi), str(fo)],
                           env=env, capture_output=True, text=True, timeout=3000)
        if p.returncode != 0:
            return None, p.stderr[-500:]
        return json.loads(fo.read_text()), None


def pipelines(ctx, res):
    listed = pipeprop.listed_findings()
    n = 250 if ctx.tier == "quick" else 4000
    cases, origin = [], []
    if ctx.replay:
        rp = json.loads(Path(ctx.replay).read_text())
        if "case" in rp:
            cases.append(rp["case"])
            origin.append("replay")
        n = 0
    cdir = common.VERIF / "corpus" / "C19"
    if cdir.is_dir():
        for f in sorted(cdir.glob("*.json")):
            cases.append(json.loads(f.read_text())["case"])
            origin.append(f"corpus/{f.name}")
    if not ctx.replay:
        # directed grids (DESIGN I.5): alias(keep_col_refs=True) + subquery with hidden / overwritten columns read again above
        # it, joins with suffixes, unions, slice chains - the shapes in which the compiler has to invent names
        import scenarios
        big = ctx.tier != "quick"
        for k, (f, nq) in enumerate(((scenarios.family_a, 160), (scenarios.family_joins, 60), (scenarios.family_unions, 40),
                                     (scenarios.family_slices, 30), (scenarios.family_grouping, 30),
                                     (scenarios.family_names, 10 ** 6))):
            for c in scenarios.pick(f(), 10 ** 6 if big else nq, ctx.seed + 5 + k):
                cases.append(c)
                origin.append("grid")
    g = gen.Gen(ctx.seed + 1900, {})
    for i in range(n):
        cases.append(g.case())
        origin.append(f"gen:{ctx.seed + 1900}:{i}")
    outs = c19_texts.outcomes(cases)
    seeds = [1] if ctx.tier == "quick" else [1, 2, 7]
    others = {}
    for s in seeds:
        o, err = other_seed(cases, s)
        if o is None:
            res.violations.append({"what": f"build_query subprocess under PYTHONHASHSEED={s} failed", "found_input": False,
                                   "payload": {"correspondence": "C19 hash-seed determinism", "stderr": err}})
        else:
            others[s] = o
    counts = collections.Counter()
    hit = collections.Counter()
    reported = 0
    seen = set()

    def report(i, d, what, failure, extra=None):
        nonlocal reported
        fid = findings.match(cases[i], "sqlite", failure, listed)
        if fid is not None:
            hit[fid] += 1
            return
        sig = (d, failure.get("exc"), what.split(":")[0])
        if sig in seen or reported >= 4:
            return
        seen.add(sig)
        reported += 1
        small = cases[i]
        try:
            import pipecheck

            def same(c):
                o = c19_texts.outcome(c, d)
                return (o["kind"], o.get("exc"), o.get("prepare_exc")) == (
                    outs[i][d]["kind"], outs[i][d].get("exc"), outs[i][d].get("prepare_exc")) \
                    and findings.match(c, "sqlite", failure, listed) is None
            if failure["kind"] in ("exc", "prepare"):
                small = pipecheck.shrink(cases[i], same, budget=40)
        except Exception:  # noqa: BLE001
            small = cases[i]
        payload = {"case": small, "dialect": d, "failure": failure, "origin": origin[i]}
        payload.update(extra or {})
        res.violations.append({"what": f"{d}: {what} [{origin[i]}]", "found_input": True, "payload": payload})

    for i, r in enumerate(outs):
        for d, o in r.items():
            if o["kind"] == "rejected":
                counts[f"{d}:rejected:{o['exc']}"] += 1
                if o["exc"] not in REJECTIONS:
                    report(i, d, f"verb call raised {o['exc']}", {"kind": "exc", "exc": o["exc"], "msg": o["msg"]})
                continue
            if o["kind"] == "exc":
                counts[f"{d}:{o['exc']}"] += 1
                if o["exc"] not in REFUSALS:
                    report(i, d, f"build_query on an accepted pipeline raised {o['exc']}: {o['msg'][:120]}",
                           {"kind": "exc", "exc": o["exc"], "msg": o["msg"]})
                continue
            counts[f"{d}:text"] += 1
            why = check_text(o["text"])
            if why is not None:
                report(i, d, f"not one SELECT statement: {why}", {"kind": "malformed"}, {"query": o["text"]})
            if o.get("again") is not True:
                report(i, d, f"second build_query of the same table differs ({o.get('again')})", {"kind": "nondeterministic"},
                       {"query": o["text"]})
            if o.get("rebuilt") is not True:
                report(i, d, f"rebuilding the same pipeline gives another text ({o.get('rebuilt')})",
                       {"kind": "nondeterministic"}, {"query": o["text"]})
            for s, oo in others.items():
                x = oo[i].get(d, {})
                if x.get("sha") != o["sha"]:
                    report(i, d, f"text differs under PYTHONHASHSEED={s} ({x.get('kind')} {x.get('exc', '')})",
                           {"kind": "nondeterministic"}, {"query": o["text"], "other_seed": s})
            if d == "sqlite" and o.get("prepares") is False:
                counts["sqlite:text does not prepare"] += 1
                report(i, d, f"SQLite rejects the generated text: {o['prepare_msg'][:120]}",
                       {"kind": "prepare", "exc": o["prepare_exc"], "msg": o["prepare_msg"]}, {"query": o["text"]})
    # exceptions under another seed that do not occur under seed 0
    for s, oo in others.items():
        for i, r in enumerate(oo):
            for d, x in r.items():
                if (x["kind"], x.get("exc")) != (outs[i][d]["kind"], outs[i][d].get("exc")):
                    report(i, d, f"outcome under PYTHONHASHSEED={s} is {x['kind']} {x.get('exc', '')}, under 0 "
                                 f"{outs[i][d]['kind']} {outs[i][d].get('exc', '')}", {"kind": "nondeterministic"})
    for fid, k in hit.items():
        res.known.append(f"{fid} {listed[fid]['what'][:160]} ({k} generated cases)")
    res.coverage["pipelines"] = {"cases": len(cases), "dialects": list(c19_texts.DIALECTS), "hash_seeds": [0] + list(others),
                                 "outcomes": dict(counts)}
    res.coverage["evaluations"] = res.coverage.get("evaluations", 0) + len(cases) * len(c19_texts.DIALECTS) * (1 + len(others))
    res.traces += len(cases) * len(c19_texts.DIALECTS)


def probes(ctx, res):
    """re-demonstrate the listed findings of this property on build_query / SQLite prepare"""
    listed = pipeprop.listed_findings("C19")
    for fid, f in listed.items():
        c = findings.PROBES.get(fid)
        if c is None:
            continue
        o = c19_texts.outcome(c, "sqlite")
        if o["kind"] == "exc" and o["exc"] not in REFUSALS or o.get("prepares") is False:
            res.known.append(f"{fid} {f['what'][:200]}")
        res.coverage.setdefault("probes", {})[fid] = {k: v for k, v in o.items() if k != "text"}


def run(ctx, res):
    grids = not ctx.replay
    if ctx.replay:
        try:      # a replay of a lookup / grid violation (no pipeline in it) re-runs the lookups and grids
            grids = "case" not in json.loads(Path(ctx.replay).read_text())
        except Exception:  # noqa: BLE001
            grids = True
    if grids:
        lookup_enumeration(res, full=ctx.tier == "thorough")
        operator_grid(res)
        literal_grid(res)
        probes(ctx, res)
    pipelines(ctx, res)
    res.coverage["partial"] = ["the SQL compilers are not modelled: the first sentence of C19 is decided by running "
                               "build_query on generated pipelines and grids, not by a theorem",
                               "PostgreSQL and SQL Server texts are generated but never executed (no server); DuckDB / DB2 absent"]
