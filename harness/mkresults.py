"""Rewrites the table of seeded/RESULTS.md from seeded/matrix.tsv (output of harness/seeded_matrix.sh) and the
meta.json of every seed; the text above the table is kept."""
import collections
import json
from pathlib import Path

S = Path(__file__).resolve().parent.parent / "seeded"
rows = collections.OrderedDict()
for line in (S / "matrix.tsv").read_text().splitlines():
    seed, chk, verdict, how, nf = (line.split("\t") + ["", "", ""])[:5]
    rows.setdefault(seed, []).append((chk, verdict, how, nf))
head = []
for ln in (S / "RESULTS.md").read_text().splitlines():
    if ln.startswith("| seed |"):
        break
    head.append(ln)
out = head + ["| seed | change | caught by (quick tier) | how (first violation line) |", "|---|---|---|---|"]
for seed, rs in rows.items():
    meta = json.loads((S / seed / "meta.json").read_text())
    summ = " ".join(str(meta.get("summary", "")).split())
    summ = (summ[:230] + "...") if len(summ) > 230 else summ
    caught = ", ".join(c for c, v, _, _ in rs if v == "caught") or "**MISSED**"
    how = "; ".join(f"{c}: {h}" + (" (no-failing-input-found)" if nf not in ("", "0") and v == "caught" else "")
                    for c, v, h, nf in rs)
    out.append(f"| {seed} | {summ.replace('|', '/')} | {caught} | {how.replace('|', '/')} |")
(S / "RESULTS.md").write_text("\n".join(out) + "\n")
print(len(rows), "seeds;", sum(1 for rs in rows.values() if all(v == 'caught' for _, v, _, _ in rs)), "caught by every listed check")
