#!/bin/bash
# soak: run the quick checks of the given properties under several seeds; print only problems
props="$1"; seeds="$2"
./check --setup > /dev/null 2>&1 || { echo "setup failed"; exit 1; }
for s in $seeds; do
  for p in $props; do
    out=$(VERIF_SEED=$s ./check $p --tier quick 2>&1)
    if echo "$out" | grep -q VIOLATION; then
      echo "### seed=$s prop=$p"; echo "$out" | grep -E "VIOLATION|^  " | cut -c1-250
      for f in $(echo "$out" | grep -o 'replay=[^ ]*' | cut -d= -f2 | head -3); do
        /venv/bin/python harness/showreplay.py $f 2>/dev/null | cut -c1-900
      done
    else
      echo "ok seed=$s prop=$p"
    fi
  done
done
