#!/bin/bash
# usage: confirm_seed.sh <property id> <dir with patch.diff demo.py meta.json> [seed name]
# Confirms in a scratch worktree of /repo's HEAD: demo passes without the patch, fails with it, the 64
# baseline tests still pass with it.  On success copies the files to /verif/seeded/<name>/.
id="$1"; src="$(readlink -f "$2")"; name="${3:-$id}"
wt=/tmp/mut/confirm_$$; mkdir -p /tmp/mut
git -C /repo worktree add -q --detach "$wt" HEAD || exit 2
trap 'git -C /repo worktree remove --force "$wt"' EXIT
run_demo() { (cd "$wt" && PYTHONHASHSEED=0 PYTHONPATH="$wt/src" timeout 300 /venv/bin/python "$src/demo.py" >/dev/null 2>&1); echo $?; }
a=$(run_demo)
git -C "$wt" apply "$src/patch.diff" || { echo "patch does not apply"; exit 2; }
b=$(run_demo)
t=$(cd "$wt" && PYTHONPATH="$wt/src" /venv/bin/python -m pytest -q -p no:cacheprovider tests/test_core.py tests/test_polars_table.py tests/test_version.py "tests/test_backend_equivalence/test_union.py::test_union_empty_tables" 2>&1 | tail -1)
echo "demo without patch: exit $a; with patch: exit $b; tests: $t"
if [ "$a" = "0" ] && [ "$b" != "0" ] && echo "$t" | grep -q "64 passed"; then
  d=/verif/seeded/$name; mkdir -p "$d"; cp "$src/patch.diff" "$src/demo.py" "$d/"
  /venv/bin/python - "$src/meta.json" "$d/meta.json" "$id" "$a" "$b" "$t" <<'PY'
import json,sys
m=json.load(open(sys.argv[1]))
m.update({"property": sys.argv[3], "confirmed": {"demo_exit_without_patch": int(sys.argv[4]), "demo_exit_with_patch": int(sys.argv[5]),
          "baseline_tests_with_patch": sys.argv[6], "how": "harness/confirm_seed.sh in a scratch worktree of /repo HEAD"}})
json.dump(m,open(sys.argv[2],"w"),indent=1)
PY
  echo "kept as $d"
else echo "NOT confirmed"; fi
