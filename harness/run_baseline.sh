#!/bin/bash
# Runs the repository's stable baseline (the 64 tests of /root/.vp/BASELINE.json) and prints a summary.
cd /repo && /venv/bin/python -m pytest -q -p no:cacheprovider --timeout=900 --continue-on-collection-errors \
  tests/test_core.py tests/test_polars_table.py tests/test_version.py \
  "tests/test_backend_equivalence/test_union.py::test_union_empty_tables" 2>&1 | grep -v conda | tail -8
