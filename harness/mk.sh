#!/bin/bash
# developer helper: regenerate coq/generated from /repo, refresh _CoqProject/Makefile, build targets (default: all)
HERE="$(dirname "$(readlink -f "$0")")"
cd "$HERE/../coq" && rm -f Makefile Makefile.conf && PYTHONHASHSEED=0 PYTHONPATH="$HERE:${VERIF_REPO:-/repo}/src" /venv/bin/python -W ignore -c "
import common, translate; print(translate.regenerate()); common.coq_project()" 2>&1 | grep -v conda | grep -v "'ok'" 
make -j16 --no-print-directory "$@" 2>&1 | grep -v "^COQDEP\|^COQC" 
