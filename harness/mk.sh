#!/bin/bash
# developer helper: refresh _CoqProject/Makefile and build the given targets (default: all)
cd /verif/coq && rm -f Makefile Makefile.conf && /venv/bin/python -c "
import sys; sys.path.insert(0,'/verif/harness'); import common; common.coq_project()" 2>&1 | grep -v conda
make -j16 --no-print-directory "$@" 2>&1 | grep -v "^COQDEP\|^COQC" 
