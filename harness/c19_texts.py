"""build_query() outcomes of pipeline descriptions on the SQL dialects (C19).
Importable (outcomes(cases)) and runnable as a subprocess under another PYTHONHASHSEED:
    c19_texts.py <cases.json> <out.json>
Each outcome: {"kind": "text", "sha": ..., "text": ...} | {"kind": "rejected", "exc": ...} (verb call raised)
| {"kind": "exc", "exc": ..., "msg": ...} (build_query raised); plus "again": same text on a second build_query
of the same table object and "rebuilt": same text when the pipeline is built anew."""
import hashlib
import json
import sys
import warnings

DIALECTS = ("sqlite", "postgres", "mssql")


def build(case, dialect, engine_cache):
    from pipes import Instantiator
    from pydiverse.transform import extended as X
    out = Instantiator(case, dialect, engine_cache).run()
    if out.exc is not None:
        return None, {"kind": "rejected", "exc": out.exc, "msg": out.exc_msg}
    try:
        with warnings.catch_warnings():
            warnings.simplefilter("ignore")
            q = out.table >> X.build_query()
    except BaseException as ex:  # noqa: BLE001
        if isinstance(ex, (KeyboardInterrupt, SystemExit)):
            raise
        return out.table, {"kind": "exc", "exc": type(ex).__name__, "msg": str(ex)[:300]}
    if not isinstance(q, str):
        return out.table, {"kind": "exc", "exc": "NotAString", "msg": repr(type(q))}
    return out.table, {"kind": "text", "text": q, "sha": hashlib.sha1(q.encode()).hexdigest()}


def outcome(case, dialect):
    from pydiverse.transform import extended as X
    cache = {}
    tbl, o = build(case, dialect, cache)
    if o["kind"] == "text":
        with warnings.catch_warnings():
            warnings.simplefilter("ignore")
            try:
                o["again"] = (tbl >> X.build_query()) == o["text"]
            except BaseException as ex:  # noqa: BLE001
                o["again"] = f"raised {type(ex).__name__}"
        _, o2 = build(case, dialect, cache)
        o["rebuilt"] = o2.get("text") == o["text"] if o2["kind"] == "text" else f"{o2['kind']} {o2.get('exc')}"
        if dialect == "sqlite":
            try:
                with cache["engine"].connect() as conn:
                    conn.exec_driver_sql("EXPLAIN " + o["text"])
                o["prepares"] = True
            except Exception as ex:  # noqa: BLE001
                o["prepares"] = False
                o["prepare_exc"] = type(ex).__name__
                o["prepare_msg"] = str(ex)[:300]
    return o


def outcomes(cases, dialects=DIALECTS):
    return [{d: outcome(c, d) for d in dialects if c.get("only") in (None, [d]) or d in (c.get("only") or [d])}
            for c in cases]


if __name__ == "__main__":
    cases = json.loads(open(sys.argv[1]).read())
    res = outcomes(cases)
    for r in res:
        for o in r.values():
            o.pop("text", None)
    open(sys.argv[2], "w").write(json.dumps(res))
