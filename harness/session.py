"""C10 sessions: one case (main pipeline + probe pipelines branching from earlier tables, all sharing
expression objects) is run twice on a backend:
  run A ("busy"):   one Instantiator; expression objects marked ["shared", key, e] are built once and
                    reused in every verb, table and grouping state; between the verb calls a seeded script
                    exports, builds queries, prints and inspects random earlier tables.  After EVERY call
                    the structural fingerprint of every object that existed before the call (tables with
                    their tree and metadata, shared expressions, source frames / database tables) is
                    recomputed and compared.
  run B ("isolated"): every pipeline is rebuilt in a fresh Instantiator that builds only its own ancestry,
                    with unshared expression objects and no other activity.
A and B must agree on every table: canonical tree, canonical metadata, exported rows, query text."""
from __future__ import annotations

import copy
import enum
import hashlib
import random
import uuid
import warnings

import ser
from pipes import Instantiator, export_frame

MEMO_FIELDS = {"_dtype", "_ftype"}      # lazily memoised on ColFn / CaseExpr / Cast (their effect shows in results)


FRAME_MEMO = {}      # id(frame) -> (frame, fingerprint); cleared at the start of every verification pass


def fp(o, canon=None, stack=None, memo=None):
    """structural fingerprint.  canon: dict uuid -> ordinal (canonical numbering by first occurrence) or None
    (raw uuids: comparison inside one run)."""
    import polars as pl
    from pydiverse.transform._internal.tree.col_expr import Col, ColExpr
    if stack is None:
        stack = []
    if o is None or isinstance(o, (bool, int, str, bytes)):
        return repr(o)
    if isinstance(o, float):
        return o.hex()
    if isinstance(o, uuid.UUID):
        if canon is None:
            return "U" + o.hex
        if o not in canon:
            canon[o] = len(canon)
        return f"U#{canon[o]}"
    if isinstance(o, enum.Enum):
        return repr(o)
    if isinstance(o, type):
        return f"<class {o.__module__}.{o.__qualname__}>"
    if any(o is s for s in stack):
        return "<cycle>"
    if memo is not None and id(o) in memo:
        return memo[id(o)][1]
    if isinstance(o, Col):
        return ("Col", o.name, fp(o._uuid, canon), repr(o._dtype), repr(o._ftype),
                None if canon is not None else id(o._ast))
    stack.append(o)
    try:
        if isinstance(o, (list, tuple)):
            return (type(o).__name__,) + tuple(fp(x, canon, stack, memo) for x in o)
        if isinstance(o, dict):
            return ("dict",) + tuple((fp(k, canon, stack, memo), fp(v, canon, stack, memo)) for k, v in o.items())
        if isinstance(o, (set, frozenset)):
            if canon is not None:           # order-free and numbering-free: the multiset of shallow kinds
                return ("set", len(o), tuple(sorted(type(x).__name__ for x in o)))
            return ("set",) + tuple(sorted((fp(x, canon, stack, memo) for x in o), key=repr))
        if isinstance(o, (pl.DataFrame, pl.LazyFrame)):
            if id(o) in FRAME_MEMO and FRAME_MEMO[id(o)][0] is o:
                return FRAME_MEMO[id(o)][1]
            d = o.collect() if isinstance(o, pl.LazyFrame) else o
            r = (type(o).__name__, repr(d.schema), hashlib.sha1(repr(d.rows()).encode()).hexdigest())
            FRAME_MEMO[id(o)] = (o, r)
            return r
        mod = type(o).__module__ or ""
        if mod.startswith("sqlalchemy"):
            return ("sqa", type(o).__name__, str(getattr(o, "name", "")))
        if mod.startswith("pydiverse.common") or "ops.op" in mod or "ops.signature" in mod:
            return ("atom", type(o).__name__, repr(getattr(o, "name", o)))
        fields = []
        for klass in type(o).__mro__:
            sl = klass.__dict__.get("__slots__", ())
            if isinstance(sl, str):
                sl = (sl,)
            for f in sl:
                if f not in ("__weakref__", "__dict__") and f not in fields:
                    fields.append(f)
        if hasattr(o, "__dict__"):
            fields.extend(k for k in o.__dict__ if k not in fields)
        out = [type(o).__name__]
        for f in fields:
            if isinstance(o, ColExpr) and f in MEMO_FIELDS:
                continue
            if f == "_fn_id" and canon is not None:
                continue
            try:
                v = getattr(o, f)
            except AttributeError:
                continue
            if callable(v) and not isinstance(v, type) and not hasattr(v, "__dict__"):
                continue
            out.append((f, fp(v, canon, stack, memo)))
        r = tuple(out)
        if memo is not None:
            memo[id(o)] = (o, r)
        return r
    finally:
        stack.pop()


def table_fp(tbl, canon=None, memo=None):
    return (fp(tbl._ast, canon, None, memo), fp(tbl._cache, canon, None, memo))


def canon_table(tbl):
    c = {}
    return repr(fp(tbl._ast, c)), repr(fp(tbl._cache, c))


def db_fp(engine_cache):
    eng = engine_cache.get("engine")
    if eng is None:
        return None
    import sqlalchemy as sqa
    out = []
    with eng.connect() as conn:
        for name in sorted(engine_cache.get("written", ())):
            out.append((name, repr(conn.execute(sqa.text(f'SELECT * FROM "{name}"')).fetchall())))
    return out


class Busy:
    """run A"""

    def __init__(self, case, backend, seed):
        self.case, self.backend = case, backend
        self.r = random.Random(seed)
        self.engine_cache = {}
        self.inst = Instantiator(case, backend, self.engine_cache)
        self.inst.tolerant = True
        self.inst.on_point = self.on_point
        self.inst.on_shared = lambda k, e: self.track(f"shared:{k}", e)     # snapshot BEFORE the first verb sees it
        self.snap = {}        # label -> fingerprint at creation / last verification
        self.objs = {}        # label -> object
        self.created = {}     # point -> (ast_coq, UidMap, schema_coq) serialised at creation
        self.canon_at_creation = {}
        self.exports = {}     # point -> [(names, rows)]
        self.queries = {}     # point -> [text]
        self.mutations = []   # (label, during what)
        self.log = []
        self.action_exc = []

    # -- fingerprints
    def track(self, label, obj):
        self.objs[label] = obj
        self.snap[label] = self.fingerprint(obj)

    def fingerprint(self, obj, memo=None):
        from pydiverse.transform._internal.pipe.table import Table
        if isinstance(obj, Table):
            return table_fp(obj, None, memo)
        return fp(obj, None, None, memo)

    def verify(self, during):
        FRAME_MEMO.clear()
        memo = {}              # one pass: shared subtrees (every table holds its ancestors) are dumped once
        for label, obj in self.objs.items():
            now = self.fingerprint(obj, memo)
            if now != self.snap[label]:
                self.mutations.append((label, during, first_diff(self.snap[label], now)))
                self.snap[label] = now
        d = db_fp(self.engine_cache)
        if self.snap.get("<db>") is not None and d is not None:
            before = dict(self.snap["<db>"])
            for name, content in d:          # tables the harness itself wrote since are new, not changed
                if name in before and before[name] != content:
                    self.mutations.append((f"<database table {name}>", during, ""))
        self.snap["<db>"] = d

    # -- callback after each verb call
    def on_point(self, key, tbl):
        self.verify(f"the verb call creating {key}")
        for k, e in self.inst.shared.items():
            if f"shared:{k}" not in self.objs:
                self.track(f"shared:{k}", e)
        self.track(key, tbl)
        try:
            um = ser.UidMap()
            a = ser.ast_to_coq(tbl._ast, um, self.inst.out.sources)
            sch = ser.schema_to_coq(ser.ast_sources(tbl._ast, []), um)
            self.created[key] = (a, um, sch)
        except Exception:  # noqa: BLE001
            pass
        self.canon_at_creation[key] = canon_table(tbl)
        for _ in range(self.r.choice((0, 0, 1, 1, 2))):
            self.action()

    def action(self):
        from pydiverse.transform import extended as X
        pts = [k for k in self.inst.out.points if k in self.objs]
        if not pts:
            return
        key = self.r.choice(pts)
        tbl = self.inst.out.points[key]
        kind = self.r.choice(("export", "export", "build_query", "repr", "columns", "iter"))
        self.log.append((kind, key))
        try:
            with warnings.catch_warnings():
                warnings.simplefilter("ignore")
                if kind == "export":
                    self.exports.setdefault(key, []).append(export_frame(tbl)[:2])
                elif kind == "build_query":
                    self.queries.setdefault(key, []).append(tbl >> X.build_query())
                elif kind == "repr":
                    repr(tbl)
                    str(tbl)
                elif kind == "columns":
                    list(tbl >> X.columns())
                    len(tbl)
                else:
                    [c.dtype() for c in tbl]
                    [c.ftype(agg_is_window=False) for c in tbl]
        except BaseException as ex:  # noqa: BLE001
            if isinstance(ex, (KeyboardInterrupt, SystemExit)):
                raise
            self.action_exc.append((kind, key, type(ex).__name__, str(ex)[:200]))
        self.verify(f"{kind} of {key}")

    def run(self):
        out = self.inst.run()
        self.verify("the end of the session")
        # final observations of every table
        from pydiverse.transform import extended as X
        self.final = {}
        for key, tbl in out.points.items():
            if key.endswith("@0") and key not in self.objs:
                continue
            o = {"canon": canon_table(tbl)}
            try:
                with warnings.catch_warnings():
                    warnings.simplefilter("ignore")
                    o["export"] = export_frame(tbl)[:2]
            except BaseException as ex:  # noqa: BLE001
                if isinstance(ex, (KeyboardInterrupt, SystemExit)):
                    raise
                o["export_exc"] = type(ex).__name__
                o["export_msg"] = str(ex)[:200]
            try:
                with warnings.catch_warnings():
                    warnings.simplefilter("ignore")
                    o["query"] = tbl >> X.build_query()
            except BaseException as ex:  # noqa: BLE001
                if isinstance(ex, (KeyboardInterrupt, SystemExit)):
                    raise
                o["query_exc"] = type(ex).__name__
            self.verify(f"the final export / build_query of {key}")
            self.final[key] = o
        self.out = out
        return self


def first_diff(a, b, path=""):
    """a short description of where two fingerprints differ"""
    if type(a) is not type(b):
        return f"{path}: {str(a)[:80]} -> {str(b)[:80]}"
    if isinstance(a, tuple):
        if len(a) != len(b):
            return f"{path}: length {len(a)} -> {len(b)}: {str(a)[:120]} -> {str(b)[:120]}"
        for i, (x, y) in enumerate(zip(a, b)):
            if x != y:
                nm = x[0] if isinstance(x, tuple) and x and isinstance(x[0], str) else i
                return first_diff(x, y, f"{path}/{nm}")
        return ""
    return f"{path}: {str(a)[:80]} -> {str(b)[:80]}"


def ancestry(case, pid):
    """the pipes needed to build pipe `pid` (root first)"""
    pipes_ = {p["id"]: p for p in case.get("extra_pipes", []) + case.get("late_pipes", [])}
    pipes_[case["pipe"]["id"]] = case["pipe"]
    chain = []
    cur = pipes_[pid]
    while True:
        chain.append(cur)
        if "from" not in cur:
            break
        cur = pipes_[cur["from"].split("@")[0]]
    return list(reversed(chain))


def nested_ids(p):
    out = []
    for st in p["steps"]:
        if st[0] in ("join", "union") and "ref" not in st[1]:
            out.append(st[1]["id"])
            out.extend(nested_ids(st[1]))
    return out


def isolated(case, backend, pid):
    """run B for one pipe: its ancestry only, unshared expression objects, nothing else"""
    chain = ancestry(case, pid)
    sub = {"tables": case["tables"], "pipe": chain[-1], "extra_pipes": chain[:-1]}
    # references into other pipes (join operands given by {"ref": ...}, columns of other pipes) need those pipes too
    needed = set()

    def refs(x):
        if isinstance(x, dict):
            if "ref" in x:
                needed.add(x["ref"].split("@")[0])
            for v in x.values():
                refs(v)
        elif isinstance(x, list):
            if len(x) == 3 and x[0] == "col" and isinstance(x[1], str):
                needed.add(x[1].split("@")[0])
            for v in x:
                refs(v)
    for p in chain:
        refs(p["steps"])
    have = {p["id"] for p in chain} | {i for p in chain for i in nested_ids(p)}
    extra = []
    for n in sorted(needed - have):
        try:
            for q in ancestry(case, n):
                if q["id"] not in have:
                    extra.append(q)
                    have.add(q["id"])
        except KeyError:
            pass
    sub["extra_pipes"] = extra + chain[:-1]
    inst = Instantiator(copy.deepcopy(sub), backend, {})
    inst.share = False
    inst.tolerant = True
    out = inst.run()
    from pydiverse.transform import extended as X
    res = {}
    for key, tbl in out.points.items():
        if not key.startswith(pid + "@"):
            continue
        o = {"canon": canon_table(tbl)}
        try:
            with warnings.catch_warnings():
                warnings.simplefilter("ignore")
                o["export"] = export_frame(tbl)[:2]
        except BaseException as ex:  # noqa: BLE001
            if isinstance(ex, (KeyboardInterrupt, SystemExit)):
                raise
            o["export_exc"] = type(ex).__name__
        try:
            with warnings.catch_warnings():
                warnings.simplefilter("ignore")
                o["query"] = tbl >> X.build_query()
        except BaseException as ex:  # noqa: BLE001
            if isinstance(ex, (KeyboardInterrupt, SystemExit)):
                raise
            o["query_exc"] = type(ex).__name__
        res[key] = o
    return res, out
