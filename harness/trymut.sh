#!/bin/bash
# usage: trymut.sh <patch.diff> C01 C02 ...
# apply a seeded change to a scratch worktree of /repo's HEAD and run the quick checks against it
# (VERIF_REPO), then remove the worktree.  /repo itself is not touched.
patch="$(readlink -f "$1")"; shift
wt=/tmp/mut/$(basename "$(dirname "$patch")")_$$
mkdir -p /tmp/mut
git -C /repo worktree add -q --detach "$wt" HEAD || exit 2
trap 'git -C /repo worktree remove --force "$wt"' EXIT
git -C "$wt" apply "$patch" || { echo "patch does not apply"; exit 2; }
cd "$(dirname "$(readlink -f "$0")")/.."
for p in "$@"; do
  echo "== $p"; VERIF_REPO="$wt" timeout 1500 ./check $p --tier quick 2>&1 | grep -E "VIOLATION|: ok|^  " | cut -c1-260 | head -8
done
