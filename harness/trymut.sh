#!/bin/bash
# usage: trymut.sh <patch.diff> C01 C02 ...   — apply a seeded change to /repo, run the quick checks, undo.
patch="$1"; shift
cd /repo && git status --porcelain | grep -q . && { echo "/repo not clean"; exit 2; }
git apply "$patch" || { echo "patch does not apply"; exit 2; }
trap 'git -C /repo checkout -- . ' EXIT
cd /verif
for p in "$@"; do
  echo "== $p"; timeout 1500 ./check $p --tier quick 2>&1 | grep -E "VIOLATION|KNOWN|: ok|^  " | cut -c1-300 | head -12
done
