"""Typed random generator of pipeline descriptions (DESIGN section 6).  All random choices derive
from one random.Random(seed); a case is identified by (seed, index)."""
from __future__ import annotations

import random

INT, FLT, BOOL, STR = "Int64", "Float64", "Bool", "String"
STR_ALPHA = ["a", "b", "ab", "ba", "x", "xy", "", "a b", " a", "bb", "aa", "b%", "a_b", "b-", "zz"]


def has_mean(e):
    """does the expression contain `mean` (the only source of non-dyadic floats)?  Its result is compared as it is,
    but is not fed into further arithmetic or ordering: engines round / render such values differently in the
    last digits (outside the documented value domain; alarm of the first thorough run)"""
    if isinstance(e, list):
        if len(e) >= 2 and e[0] == "fn" and e[1] == "mean":
            return True
        return any(has_mean(x) for x in e)
    if isinstance(e, dict):
        return any(has_mean(x) for x in e.values())
    return False


def mentions_col(e) -> bool:
    if isinstance(e, list):
        if e and e[0] in ("col", "c"):
            return True
        return any(mentions_col(x) for x in e)
    if isinstance(e, dict):
        return any(mentions_col(x) for x in e.values())
    return False


def dedup_keys(keys):
    """Drop order keys whose expression already occurred (by column name for references)."""
    out, seen = [], set()
    for k in keys:
        e = k[1]
        sig = repr(e)
        if sig in seen:
            continue
        seen.add(sig)
        out.append(k)
    return out


class Col:
    __slots__ = ("name", "ty", "ref", "nullable", "kind")

    def __init__(self, name, ty, ref, nullable, kind="e"):
        self.name, self.ty, self.ref, self.nullable, self.kind = name, ty, ref, nullable, kind
        # kind: "e" element-wise, "w" window/aggregate-in-mutate, "a" aggregate result

    def copy(self):
        return Col(self.name, self.ty, self.ref, self.nullable, self.kind)


class GState:
    def __init__(self, pid, vis, uniq):
        self.pid = pid
        self.k = 0                 # number of steps so far
        self.vis = vis             # visible columns in order
        self.hidden = []           # hidden but referenceable columns
        self.group = []            # names of grouping columns
        self.uniq = uniq           # list of Col forming a unique key of the rows, or None
        self.sliced = False
        self.has_window_col = False
        self.summarized = False
        self.arranged = False
        self.ug_aggs = None        # aggregate columns of an ungrouped summarize (finding F23)
        self.alias_since_summarize = False
        self.joined = False          # a join happened (finding F45)

    def point(self):
        return f"{self.pid}@{self.k}"


class Gen:
    def __init__(self, seed, profile=None):
        self.r = random.Random(seed)
        self.p = {
            "verbs": {"mutate": 5, "filter": 3, "select": 2, "drop": 1, "rename": 2, "arrange": 3,
                      "slice_head": 2, "group_by": 2, "ungroup": 1, "summarize": 2, "alias": 1.5,
                      "join": 1.0, "union": 0.5},
            "max_steps": 6, "window": 0.25, "float": 0.5, "depth": 3, "cref": 0.3,
            "shapes": {"typical": 5, "nulls": 3, "dups": 2, "single": 1, "empty": 1, "tall": 0.5},
            "joins": True, "unions": True, "agg_in_mutate": 0.2,
            "like_letters": False,     # finding F13: SQLite LIKE is case-insensitive for ASCII letters
        }
        if profile:
            for k, v in profile.items():
                if isinstance(v, dict) and isinstance(self.p.get(k), dict):
                    self.p[k] = {**self.p[k], **v}
                else:
                    self.p[k] = v
        self.npipes = 0
        self.tables = {}

    # ---------------------------------------------------------------- data
    def wchoice(self, d):
        ks = [k for k, w in d.items() if w > 0]
        return self.r.choices(ks, [d[k] for k in ks])[0]

    def gen_table(self, name, shape=None):
        r = self.r
        shape = shape or self.wchoice(self.p["shapes"])
        n = {"typical": r.randint(4, 10), "nulls": r.randint(4, 10), "dups": r.randint(5, 12),
             "single": 1, "empty": 0, "tall": r.randint(120, 160)}[shape]
        pnull = {"typical": 0.12, "nulls": 0.35, "dups": 0.15, "single": 0.3, "empty": 0, "tall": 0.1}[shape]
        dom = 3 if shape in ("dups", "tall") else 6
        cols = [["id", INT], ["a", INT], ["b", INT], ["g", INT], ["s", STR], ["p", BOOL]]
        if r.random() < self.p["float"]:
            cols.append(["f", FLT])
        ids = list(range(1, n + 1))
        r.shuffle(ids)
        rows = []
        prefix = r.randint(40, 100) if shape == "tall" else 0
        for i in range(n):
            def nz(v, force=False):
                return None if (force or r.random() < pnull) else v
            row = [ids[i], nz(r.randint(-dom, dom), i < prefix), r.randint(-dom, dom) or 1,
                   nz(r.randint(0, 2)), nz(r.choice(STR_ALPHA[:dom + 4])), nz(r.random() < 0.5)]
            if len(cols) == 7:
                row.append(nz(r.randint(-24, 24) / 8))
            rows.append(row)
        self.tables[name] = {"cols": cols, "rows": rows, "shape": shape}
        nullable = {"id": False, "a": True, "b": False, "g": True, "s": True, "p": True, "f": True}
        return cols, nullable

    # ---------------------------------------------------------------- expressions
    def ref(self, st: GState, c: Col):
        """A reference to column c: C.name when visible (sometimes), else the original reference."""
        if any(v is c for v in st.vis) and self.r.random() < self.p["cref"]:
            return ["c", c.name]
        return c.ref

    def cols_of(self, st, ty, kinds=("e", "w", "a"), allow_hidden=True):
        cs = [c for c in st.vis if c.ty == ty and c.kind in kinds]
        if allow_hidden and self.r.random() < self.p.get("hidden_refs", 0.3):
            cs = cs + [c for c in st.hidden if c.ty == ty and c.kind in kinds]
        return cs

    def lit(self, ty):
        r = self.r
        if ty == INT:
            return ["lit", r.choice([0, 1, 2, 3, -1, -2, 5, 7, -7, 10])]
        if ty == FLT:
            return ["lit", r.choice([0.5, 1.5, -2.25, 0.125, 3.0, -0.5, 2.0])]
        if ty == BOOL:
            return ["lit", r.random() < 0.5]
        return ["lit", r.choice(STR_ALPHA)]

    def expr(self, st, ty, depth, kinds=("e", "w", "a")):
        """A well-typed element-wise expression of type ty over the columns of st."""
        r = self.r
        cs = self.cols_of(st, ty, kinds)
        if depth <= 0 or r.random() < 0.25:
            if cs and r.random() < 0.8:
                return self.ref(st, r.choice(cs))
            return self.lit(ty)
        d = depth - 1
        e = lambda t: self.expr(st, t, d, kinds)  # noqa: E731
        def col_or(t):
            cc = self.cols_of(st, t, kinds)
            return self.ref(st, r.choice(cc)) if cc else e(t)
        if ty == INT:
            k = r.choice(["add", "sub", "mul", "floordiv", "mod", "neg", "abs", "hmax", "hmin", "hsum",
                          "coalesce", "fill_null", "clip", "case", "len", "castb", "castf"])
            if k in ("add", "sub", "mul"):
                return ["fn", k, [e(INT), e(INT)]]
            if k in ("floordiv", "mod"):
                return ["fn", k, [e(INT), ["lit", r.choice([2, 3, -2, 7, -7, 1, -1])]]]
            if k in ("neg", "abs"):
                a = col_or(INT)
                if not mentions_col(a):     # finding F21: `- -7` renders as an SQL comment
                    a = ["lit", 3]
                return ["fn", k, [a]]
            if k in ("hmax", "hmin", "hsum"):
                first = col_or(INT)
                if k != "hsum":
                    # finding F41 (third party): polars fails on horizontal max / min over broadcast scalars only;
                    # one argument is an element-wise column
                    ce = self.cols_of(st, INT, ("e",), False)
                    first = self.ref(st, r.choice(ce)) if ce else ["fn", "add", [["lit", 1], ["lit", 1]]]
                    if not ce:
                        return ["fn", "add", [e(INT), e(INT)]]
                return ["fn", {"hmax": "horizontal_max", "hmin": "horizontal_min", "hsum": "horizontal_sum"}[k],
                        [first] + [e(INT) for _ in range(r.randint(1, 2))]]
            if k == "coalesce":
                return ["fn", "coalesce", [col_or(INT), e(INT)] + ([e(INT)] if r.random() < 0.3 else [])]
            if k == "fill_null":
                return ["fn", "fill_null", [col_or(INT), e(INT)]]
            if k == "clip":
                lo = r.randint(-3, 1)
                return ["fn", "clip", [col_or(INT), ["lit", lo], ["lit", lo + r.randint(0, 4)]]]
            if k == "len":
                return ["fn", "str_len", [col_or(STR)]]
            if k == "castb":
                return ["cast", col_or(BOOL), "Int64"]
            if k == "castf" and self.cols_of(st, FLT, kinds):
                return ["cast", col_or(FLT), "Int64"]
            return ["case", [[self.cond(st, d, kinds), e(INT)] for _ in range(r.randint(1, 2))],
                    e(INT) if r.random() < 0.6 else None]
        if ty == FLT:
            k = r.choice(["add", "sub", "mul", "div", "neg", "abs", "cast", "coalesce", "case", "mix"])
            if k in ("add", "sub", "mul"):
                return ["fn", k, [e(FLT), e(FLT)]]
            if k == "div":
                return ["fn", "truediv", [e(INT), ["lit", r.choice([2, 4, -8, 1, -2, 8])]]]
            if k in ("neg", "abs"):
                a = col_or(FLT)
                if not mentions_col(a):
                    a = ["lit", 1.5]
                return ["fn", k, [a]]
            if k == "cast":
                return ["cast", col_or(INT), "Float64"]
            if k == "coalesce":
                return ["fn", "coalesce", [col_or(FLT), e(FLT)]]
            if k == "mix":
                return ["fn", r.choice(["add", "mul", "sub"]), [col_or(INT), e(FLT)]]
            return ["case", [[self.cond(st, d, kinds), e(FLT)]], e(FLT) if r.random() < 0.6 else None]
        if ty == BOOL:
            k = r.choice(["cmp", "cmp", "cmps", "and", "or", "xor", "not", "is_null", "is_in", "starts",
                          "ends", "contains", "cmpf", "eqb"])
            if k == "cmp":
                return ["fn", r.choice(["equal", "not_equal", "less_than", "less_equal", "greater_than",
                                        "greater_equal"]), [e(INT), e(INT)]]
            if k == "cmps":
                return ["fn", r.choice(["equal", "not_equal", "less_than", "greater_equal"]), [col_or(STR), e(STR)]]
            if k == "cmpf" and self.cols_of(st, FLT, kinds):
                return ["fn", r.choice(["less_than", "greater_equal", "equal"]), [col_or(FLT), e(FLT)]]
            if k == "eqb":
                return ["fn", r.choice(["equal", "not_equal"]), [col_or(BOOL), e(BOOL)]]
            if k in ("and", "or", "xor"):
                x, y = e(BOOL), e(BOOL)
                if y == ["fn", "bool_invert", [x]] or x == ["fn", "bool_invert", [y]]:
                    y = ["lit", True]       # finding F38: polars simplifies x & ~x ignoring nulls
                return ["fn", "bool_" + k, [x, y]]
            if k == "not":
                return ["fn", "bool_invert", [e(BOOL)]]
            if k == "is_null":
                t = r.choice([INT, STR, BOOL])
                return ["fn", r.choice(["is_null", "is_not_null"]), [col_or(t)]]
            if k == "is_in":
                t = r.choice([INT, STR])
                return ["fn", "is_in", [col_or(t)] + [self.lit(t) if r.random() < 0.7 else e(t)
                                                     for _ in range(r.randint(1, 3))]]
            if k in ("starts", "ends"):
                return ["fn", "str_starts_with" if k == "starts" else "str_ends_with",
                        [col_or(STR), ["lit", r.choice([" ", "%", "_", "", "b%", "a_"] if self.p.get("like_letters") is False else ["a", "b", "x", "ab", "", " ", "%", "_"])]]]
            if k == "contains":
                return ["fn", "str_contains", [col_or(STR), ["lit", r.choice([" ", "%", "_", "a_"] if self.p.get("like_letters") is False else ["a", "b", " ", "ab", "%"])],
                                               ["lit", False], ["lit", False]]]
            return ["fn", "less_than", [e(INT), e(INT)]]
        # STR
        k = r.choice(["concat", "upper", "lower", "strip", "replace", "coalesce", "case", "cast", "hmax"])
        if k == "concat":
            return ["fn", "add", [e(STR), e(STR)]]
        if k in ("upper", "lower", "strip"):
            return ["fn", "str_" + k, [col_or(STR)]]
        if k == "replace":
            return ["fn", "str_replace_all", [col_or(STR), ["lit", r.choice(["a", "b", "ab", " "])],
                                              ["lit", r.choice(["", "z", "ab"])]]]
        if k == "coalesce":
            return ["fn", "coalesce", [col_or(STR), e(STR)]]
        if k == "cast":
            return ["cast", col_or(INT), ["str", None]]
        if k == "hmax":
            return ["fn", r.choice(["horizontal_max", "horizontal_min"]), [col_or(STR), e(STR)]]
        return ["case", [[self.cond(st, d, kinds), e(STR)]], e(STR) if r.random() < 0.6 else None]

    def cond(self, st, depth, kinds):
        """A boolean expression that mentions a column (`when(<constant>)` is rejected).  Window /
        aggregate columns are kept out of case conditions (finding F39: CaseExpr.ftype ignores the
        function type of its conditions)."""
        kinds = tuple(k for k in kinds if k not in ("w", "a")) or ("e",)
        for _ in range(20):
            e = self.expr(st, BOOL, depth, kinds)
            if mentions_col(e):
                return e
        cc = [c for c in st.vis + st.hidden if c.ty == INT and c.kind in kinds]
        if cc:
            return ["fn", "greater_than", [self.r.choice(cc).ref, ["lit", 0]]]
        cc = [c for c in st.vis + st.hidden if c.kind in kinds]
        return ["fn", "is_null", [self.r.choice(cc).ref]] if cc else ["fn", "is_null", [["lit", 1]]]

    def order(self, st, c: Col = None, e=None):
        r = self.r
        if e is None:
            e = self.ref(st, c)
        nullable = True if c is None else c.nullable
        nl = r.choice([True, False]) if nullable or r.random() < 0.3 else None
        return ["ord", e, r.random() < 0.4, nl]

    def total_order(self, st, extra=1):
        """Sort keys that are total on the rows: some keys + the unique key as tie-breaker."""
        r = self.r
        keys = []
        cands = [c for c in st.vis + st.hidden if c.ty in (INT, STR, BOOL, FLT) and c.kind not in ("k", "x")]   # F19: no constants; no non-dyadic floats
        for _ in range(r.randint(0, extra)):
            if cands:
                keys.append(self.order(st, r.choice(cands)))
        if r.random() < 0.2 and self.cols_of(st, INT, ("e",), False):
            # an expression key; never a constant (finding #19: Polars cannot sort by a literal)
            keys.append(self.order(st, None, ["fn", "add", [self.ref(st, r.choice(self.cols_of(st, INT, ("e",), False))),
                                                          self.expr(st, INT, 1, ("e",))]]))
        if st.uniq is None:
            return None
        for c in st.uniq:
            keys.append(self.order(st, c))
        return dedup_keys(keys)

    def colexpr(self, st, ty):
        """An element-wise expression of type ty that mentions at least one column (aggregates of
        constants are findings #20/#9: Polars does not broadcast the literal, SQL folds nested
        constant aggregates into one SELECT)."""
        for _ in range(20):
            e = self.expr(st, ty, 1, ("e",))
            if mentions_col(e):
                return e
        cc = [c for c in st.vis + st.hidden if c.kind == "e"]
        if ty == INT:
            c = [x for x in cc if x.ty == INT]
            if c:
                return self.r.choice(c).ref
        if ty == BOOL:
            c = [x for x in cc if x.ty == INT]
            if c:
                return ["fn", "greater_than", [self.r.choice(c).ref, ["lit", 0]]]
        if ty == FLT:
            c = [x for x in cc if x.ty == INT]
            if c:
                return ["cast", self.r.choice(c).ref, "Float64"]
        if ty == STR:
            c = [x for x in cc if x.ty == INT]
            if c:
                return ["cast", self.r.choice(c).ref, ["str", None]]
        return None

    def agg_expr(self, st, ty, window: bool):
        e = self.agg_expr0(st, ty, window)
        if e is not None and any(a is None for a in e[2]):
            return None
        # finding F45 (third party): after a join, polars fails on horizontal max / min with a literal argument inside
        # a window aggregate over a partition
        if e is not None and window and getattr(st, "joined", False) and len(e) > 3 and e[3].get("partition_by"):
            def bad(x):
                if isinstance(x, list) and x and x[0] == "fn":
                    if x[1] in ("horizontal_max", "horizontal_min") and any(isinstance(a, list) and a and a[0] in ("lit", "litc") for a in x[2]):
                        return True
                    return any(bad(a) for a in x[2])
                return isinstance(x, list) and any(bad(a) for a in x if isinstance(a, list))
            if any(bad(a) for a in e[2]):
                return None
        return e

    def agg_expr0(self, st, ty, window: bool):
        """An aggregate (summarize) or window (mutate) call producing type ty, or None."""
        r = self.r
        ek = ("e",)
        ctx = {}
        if window and r.random() < 0.5:
            pc = [c for c in st.vis if c.kind == "e" and c.ty in (INT, STR, BOOL)]
            if pc:
                ctx["partition_by"] = [self.ref(st, c) for c in r.sample(pc, min(len(pc), r.randint(1, 2)))]
        if ty == INT:
            k = r.choice(["sum", "min", "max", "count", "count_star"] +
                         (["row_number", "rank", "dense_rank", "shift", "cum_sum"] if window else []))
            if k in ("sum", "min", "max", "count"):
                t = INT if k != "count" else r.choice([INT, STR, BOOL])
                fn = ["fn", k, [self.colexpr(st, t)], ctx]
                if k != "count" and r.random() < 0.15:
                    fn[3] = {**ctx, "filter": [self.expr(st, BOOL, 1, ek)]}
                return fn
            if k == "count_star":
                return ["fn", "count_star", [], ctx]
            if k in ("rank", "dense_rank"):
                cands = [c for c in st.vis if c.kind == "e"]
                if not cands:
                    return None
                ctx["arrange"] = dedup_keys([self.order(st, r.choice(cands)) for _ in range(r.randint(1, 2))])
                return ["fn", k, [], ctx]
            tot = self.total_order(st)
            if not tot:
                return None
            ctx["arrange"] = tot
            if k == "row_number":
                return ["fn", k, [], ctx]
            if k == "shift":
                args = [self.colexpr(st, INT), ["lit", r.choice([1, -1, 2, 0])],
                        ["lit", r.choice([None, None, 0, -9])]]
                return ["fn", k, args, ctx]
            return ["fn", "cum_sum", [self.colexpr(st, INT)], ctx]
        if ty == FLT:
            k = r.choice(["mean", "sum", "min"])
            if k == "mean":
                return ["fn", "mean", [self.colexpr(st, r.choice([INT, FLT]) if self.cols_of(st, FLT, ek) else INT)], ctx]
            if not self.cols_of(st, FLT, ek):
                return ["fn", "mean", [self.colexpr(st, INT)], ctx]
            return ["fn", k, [self.colexpr(st, FLT)], ctx]
        if ty == BOOL:
            return ["fn", r.choice(["any", "all"]), [self.colexpr(st, BOOL)], ctx]
        if ty == STR:
            return ["fn", r.choice(["min", "max"]), [self.colexpr(st, STR)], ctx]
        return None

    # ---------------------------------------------------------------- verbs
    def fresh_name(self, st, allow_overwrite=True):
        r = self.r
        if allow_overwrite and st.vis and r.random() < 0.3:
            return r.choice(st.vis).name
        base = r.choice(["x", "y", "z", "u", "v", "w"])
        names = {c.name for c in st.vis}
        if base not in names or r.random() < 0.1:
            return base
        i = 1
        while f"{base}{i}" in names:
            i += 1
        return f"{base}{i}"

    def add_col(self, st, name, ty, nullable, kind, point):
        old = [c for c in st.vis if c.name == name]
        for c in old:
            st.vis.remove(c)
            st.hidden.append(c)
        nc = Col(name, ty, ["col", point, name], nullable, kind)
        st.vis.append(nc)
        if st.uniq is not None and any(c in old for c in st.uniq):
            pass        # hidden columns remain referenceable: the key stays valid
        return nc

    def step(self, st: GState, verb, allow_sub=True):
        """Generate one step of kind verb; returns the step or None if not applicable."""
        r = self.r
        nxt = f"{st.pid}@{st.k + 1}"
        if verb == "mutate":
            defs, seen = [], set()
            for _ in range(r.randint(1, 3)):
                ty = r.choice([INT, INT, BOOL, STR, FLT])
                name = self.fresh_name(st)
                if name in seen:
                    continue
                if st.ug_aggs is not None and name in st.ug_aggs and len(st.ug_aggs - seen - {name}) == 0:
                    continue
                if name in st.group:
                    continue        # finding F29: hiding a grouping column breaks a later summarize
                kind = "e"
                if r.random() < self.p["window"]:
                    e = self.agg_expr(st, ty, True)
                    kind = "w"
                    if e is not None and r.random() < 0.3 and ty in (INT, FLT) and not has_mean(e):
                        e = ["fn", "add", [e, self.expr(st, ty, 1, ("e",))]]
                else:
                    e = self.expr(st, ty, self.p["depth"])
                if e is None:
                    continue
                if e[0] == "lit" and isinstance(e[1], (int, float)) and not isinstance(e[1], bool) and e[1] < 0:
                    e = ["lit", -e[1]]      # finding #21: `- -7` renders as an SQL comment
                if not mentions_col(e):
                    kind = "k"      # constant column: const-typed, not referenced again
                if has_mean(e):
                    kind = "x"      # non-dyadic float: compared as it is, not referenced again
                seen.add(name)
                defs.append((name, ty, e, kind))
            if not defs:
                return None
            st.computed = True
            for name, ty, e, kind in defs:
                self.add_col(st, name, ty, True, kind, nxt)
                if st.ug_aggs is not None:
                    st.ug_aggs.discard(name)
                if kind == "w":
                    st.has_window_col = True
            return ["mutate", [[n, e] for n, _, e, _ in defs]]
        if verb == "filter":
            ps = [self.expr(st, BOOL, self.p["depth"], ("e", "a") if r.random() < 0.8 else ("e", "a", "w"))
                  for _ in range(r.randint(1, 2))]
            return ["filter", ps]
        if verb in ("select", "drop"):
            if len(st.vis) < 2:
                return None
            keep = r.sample(st.vis, r.randint(1, len(st.vis)))
            if st.ug_aggs is not None and not any(c.name in st.ug_aggs for c in keep):
                keep.append(next(c for c in st.vis if c.name in st.ug_aggs))
            for c in st.vis:
                if c.name in st.group and c not in keep:
                    keep.append(c)      # finding F29
            if verb == "select":
                if r.random() < 0.5:
                    keep.sort(key=lambda c: st.vis.index(c))
                refs = [(["str", c.name] if r.random() < 0.3 else self.ref(st, c)) for c in keep]
                gone = [c for c in st.vis if c not in keep]
                st.vis = keep
            else:
                gone = [c for c in st.vis if c not in keep]
                if not gone:
                    return None
                refs = [(["str", c.name] if r.random() < 0.3 else self.ref(st, c)) for c in gone]
                st.vis = [c for c in st.vis if c in keep]
            st.hidden += gone
            if st.ug_aggs is not None:
                st.ug_aggs &= {c.name for c in st.vis}
            return [verb, refs]
        if verb == "rename":
            if not st.vis:
                return None
            cs = r.sample(st.vis, r.randint(1, min(2, len(st.vis))))
            names = {c.name for c in st.vis}
            m = []
            if len(cs) == 2 and r.random() < 0.3:        # swap
                m = [[cs[0].name, cs[1].name], [cs[1].name, cs[0].name]]
            else:
                for c in cs:
                    new = r.choice([c.name + "_r", "q", "k", "m"] + [h.name for h in st.hidden][:2])
                    if new in names or new in [x[1] for x in m]:
                        continue
                    m.append([c.name, new])
            if not m:
                return None
            mp = dict((a, b) for a, b in m)
            st.group = [mp.get(n, n) for n in st.group]
            if st.ug_aggs is not None:
                st.ug_aggs = {mp.get(n, n) for n in st.ug_aggs}
            for c in st.vis:
                if c.name in mp:
                    c.name = mp[c.name]
            keyform = r.random()
            out = []
            for a, b in m:
                c = next(c for c in st.vis if c.name == b)
                out.append([c.ref if keyform < 0.3 else a, b])
            return ["rename", out]
        if verb == "arrange":
            if st.uniq is not None and r.random() < 0.8:
                keys = self.total_order(st, 2)
            else:
                cands = [c for c in st.vis if c.kind in ("e", "a")]
                if not cands:
                    return None
                keys = dedup_keys([self.order(st, r.choice(cands)) for _ in range(r.randint(1, 2))])
            if not keys:
                return None
            st.arranged = True
            return ["arrange", keys]
        if verb == "slice_head":
            if st.group or not st.arranged or st.uniq is None:
                return None
            st.sliced = True
            return ["slice_head", r.choice([1, 2, 3, 5, 8, 200]), r.choice([0, 0, 1, 2, 4])]
        if verb == "group_by":
            cands = [c for c in st.vis if c.ty in (INT, STR, BOOL) and c.kind in ("e", "a")]
            if not cands:
                return None
            add = bool(st.group) and r.random() < 0.3
            if add:     # finding F33: re-adding a grouping column duplicates it
                cands = [c for c in cands if c.name not in st.group]
                if not cands:
                    return None
            cs = r.sample(cands, r.randint(1, min(2, len(cands))))
            st.group = (st.group if add else []) + [c.name for c in cs]
            return ["group_by", [(["str", c.name] if r.random() < 0.2 else self.ref(st, c)) for c in cs], add]
        if verb == "ungroup":
            if not st.group:
                return None
            st.group = []
            return ["ungroup"]
        if verb == "summarize":
            if st.summarized and (not st.alias_since_summarize or st.ug_aggs is not None):
                return None         # finding F09: nested summarize is not always detected
            gcols = [c for c in st.vis if c.name in st.group]
            if len(gcols) != len(st.group):
                return None
            defs, seen = [], set()
            for _ in range(r.randint(1, 3)):
                ty = r.choice([INT, INT, FLT, BOOL, STR])
                e = self.agg_expr(st, ty, False)
                if e is None:
                    continue
                if r.random() < 0.25 and ty in (INT, FLT) and not has_mean(e):
                    e2 = self.agg_expr(st, ty, False) if r.random() < 0.5 else self.lit(ty)
                    if e2 is not None and not has_mean(e2):
                        e = ["fn", r.choice(["add", "mul"]), [e, e2]]
                name = self.fresh_name(st, allow_overwrite=r.random() < 0.15)
                if st.group and r.random() < self.p.get("overwrite_group", 0.0):
                    name = r.choice(st.group)
                if name in seen:
                    continue
                if name in st.group and r.random() > self.p.get("overwrite_group", 0.0):
                    continue        # finding F07 (SQL): allowed only in profiles that ask for it
                seen.add(name)
                defs.append((name, ty, e))
            if not defs:
                return None
            newvis = [c for c in gcols if c.name not in seen]
            st.hidden = []
            st.vis = newvis
            for name, ty, e in defs:
                st.vis.append(Col(name, ty, ["col", nxt, name], True, "x" if has_mean(e) else "a"))
            st.uniq = list(newvis) if len(newvis) == len(gcols) and gcols else ([] if not gcols else None)
            st.computed = True
            st.ug_aggs = None if gcols else {n for n, _, _ in defs}
            st.alias_since_summarize = False
            st.group = []
            st.summarized = True
            st.arranged = False
            st.has_window_col = False
            return ["summarize", [[n, e] for n, _, e in defs]]
        if verb == "alias":
            keep = r.random() < 0.4
            st.alias_since_summarize = True
            if not keep:
                st.hidden = []
                for c in st.vis:
                    c.ref = ["col", nxt, c.name]
                    c.kind = "e" if c.kind in ("w", "a") else c.kind       # "k" and "x" stay
                if st.uniq is not None and not all(any(v is c for v in st.vis) for c in st.uniq):
                    st.uniq = None
                st.has_window_col = False
            return ["alias", keep]
        raise ValueError(verb)

    def gen_pipe(self, depth=0, max_steps=None, shape=None, ban=()):
        r = self.r
        pid = f"P{self.npipes}"
        self.npipes += 1
        tname = f"t{len(self.tables)}"
        cols, nullable = self.gen_table(tname, shape)
        vis = [Col(n, ty, ["col", f"{pid}@0", n], nullable[n]) for n, ty in cols]
        st = GState(pid, vis, [vis[0]])
        steps = []
        n = r.randint(1, max_steps or self.p["max_steps"])
        verbs = dict(self.p["verbs"])
        if depth > 0 or not self.p["joins"]:
            verbs["join"] = 0
        if depth > 0 or not self.p["unions"]:
            verbs["union"] = 0
        for b in ban:
            verbs[b] = 0
        tries = 0
        while len(steps) < n and tries < 50:
            tries += 1
            verb = self.wchoice(verbs)
            if verb == "join":
                s = self.gen_join(st)
                if s is not None:
                    st.joined = True
            elif verb == "union":
                s = self.gen_union(st)
            else:
                s = self.step(st, verb)
            if s is None:
                continue
            steps.append(s)
            st.k += 1
        if st.group and r.random() < 0.7:
            steps.append(["ungroup"])
            st.group = []
            st.k += 1
        if st.uniq and r.random() < 0.6 and not st.group and "arrange" not in ban:
            steps.append(["arrange", self.total_order(st, 1)])
            st.k += 1
        return {"id": pid, "src": tname, "steps": steps}, st

    def gen_join(self, st):
        r = self.r
        if st.group or st.ug_aggs is not None:
            return None         # finding F30: an ungrouped summarize leaves no trace for the join
        how = r.choice(["inner", "inner", "left", "left", "full"])
        if how == "full" and (st.k > 0 and getattr(st, "computed", False)):
            how = "left"        # finding F37: computed columns of the padded side are re-evaluated on nulls
        ban = ("summarize",) if how == "inner" else ("summarize", "mutate")
        right, rst = self.gen_pipe(depth=1, max_steps=2, ban=ban)
        if rst.group:
            right["steps"].append(["ungroup"])
        lc = [c for c in st.vis if c.kind == "e"]
        rc = [c for c in rst.vis if c.kind == "e"]
        mode = r.choice(["eq", "eq", "eq2", "str", "ineq", "cross"]) if how != "full" else r.choice(["eq", "eq2", "str"])
        on = None
        if mode == "cross" and how == "inner":
            on = "cross"
        elif mode == "str":
            common = [c.name for c in lc if c.ty == INT and any(d.name == c.name and d.ty == INT for d in rc)]
            if common:
                on = [["str", r.choice(common)]]
        if on is None:
            li = [c for c in lc if c.ty == INT]
            ri = [c for c in rc if c.ty == INT]
            if not li or not ri:
                return None
            a, b = r.choice(li), r.choice(ri)
            on = [["fn", "equal", [a.ref, b.ref]]]
            if mode == "eq2":
                a2, b2 = r.choice(li), r.choice(ri)
                if a2 is not a and b2 is not b:     # finding F31: a key column used twice
                    on.append(["fn", "equal", [a2.ref, b2.ref]])
            if mode == "ineq":
                on = [["fn", r.choice(["less_than", "greater_equal"]), [a.ref, b.ref]]]
                if r.random() < 0.5:
                    a2, b2 = r.choice(li), r.choice(ri)
                    if a2 is not a and b2 is not b:
                        on.append(["fn", "equal", [a2.ref, b2.ref]])
        suffix = r.choice([None, None, "_r", "_x"])
        # names after the join: the generator does not predict the suffix rule; it re-reads the
        # right columns through their original references only
        for c in rst.vis:
            c2 = c.copy()
            c2.nullable = True
            st.hidden.append(c2)
        for c in rst.hidden:
            st.hidden.append(c.copy())
        for c in st.vis:
            if how == "full":
                c.nullable = True
        st.vis = [c for c in st.vis]
        lu, ru = st.uniq, rst.uniq
        st.uniq = (lu + ru) if lu is not None and ru is not None else None
        st.arranged = False
        st.joined = True
        # visible right columns: unknown names; we drop them from `vis` (they stay hidden refs)
        st.vis_unknown = True
        return ["join", right, on, how, suffix]

    def gen_union(self, st):
        r = self.r
        if st.group or getattr(st, "vis_unknown", False) or st.arranged or st.sliced or st.ug_aggs is not None:
            return None
        # right side: same source schema, then a select/rename to the left's visible names
        names = [(c.name, c.ty) for c in st.vis]
        right, rst = self.gen_pipe(depth=1, max_steps=1, ban=("summarize", "arrange", "slice_head"))
        if rst.group:
            right["steps"].append(["ungroup"])
        # build the right table by mutate+select so that names and types match the left side
        defs, sel = [], []
        pt = f"{right['id']}@{len(right['steps'])}"
        tmp = GState(right["id"], rst.vis, rst.uniq)
        tmp.k = len(right["steps"])
        tmp.hidden = rst.hidden
        for n, ty in names:
            defs.append([n, self.expr(tmp, ty, 1, ("e",))])
        right["steps"].append(["mutate", defs])
        order = list(names)
        if r.random() < 0.6:
            r.shuffle(order)
        right["steps"].append(["select", [["c", n] for n, _ in order]])
        st.hidden = []
        for c in st.vis:
            c.nullable = True
        st.uniq = None
        st.arranged = False
        st.has_window_col = False
        return ["union", right, r.random() < 0.4]

    def case(self, max_steps=None, shape=None):
        self.npipes = 0
        self.tables = {}
        pipe, st = self.gen_pipe(0, max_steps, shape)
        return {"tables": self.tables, "pipe": pipe}
