"""Known findings of the pipeline-level properties: narrow structural matchers and dedicated probes.
The registry itself (ids, text) is /verif/known_findings.json; this module only implements the
"match" descriptors named there.  A matcher looks at the *shrunk* failing case, the backend and the
failure kind, so that a different violation of the same property is still reported."""
from __future__ import annotations

import json
import re

AGG = {"sum", "min", "max", "mean", "any", "all", "count", "count_star"}
ORDER_SENSITIVE = {"row_number", "shift", "cum_sum"}
LIKE_OPS = {"str_starts_with", "str_ends_with", "str_contains"}


def walk_pipes(pipe):
    yield pipe
    for st in pipe["steps"]:
        if st[0] in ("join", "union") and "steps" in st[1]:
            yield from walk_pipes(st[1])


def walk_exprs(x):
    """All expression nodes (lists starting with a tag) inside x."""
    if isinstance(x, list):
        if x and isinstance(x[0], str) and x[0] in ("col", "c", "lit", "litc", "fn", "case", "cast", "ord", "str", "map"):
            yield x
        for y in x:
            yield from walk_exprs(y)
    elif isinstance(x, dict):
        for y in x.values():
            yield from walk_exprs(y)


def step_exprs(st):
    if st[0] in ("join", "union"):
        return list(walk_exprs(st[2])) if st[0] == "join" and isinstance(st[2], list) else []
    return list(walk_exprs(st[1:]))


def mentions_col(e) -> bool:
    return any(x[0] in ("col", "c") for x in walk_exprs(e))


def fns(case):
    for p in walk_pipes(case["pipe"]):
        for st in p["steps"]:
            for e in step_exprs(st):
                if e[0] == "fn":
                    yield p, st, e


def has_upper(case) -> bool:
    for p, st, e in fns(case):
        if e[1] == "str_upper":
            return True
    for x in walk_exprs(case["pipe"]):
        if x[0] == "lit" and isinstance(x[1], str) and re.search(r"[A-Z]", x[1]):
            return True
    for t in case["tables"].values():
        for r in t["rows"]:
            if any(isinstance(v, str) and re.search(r"[A-Z]", v) for v in r):
                return True
    return False


def ungrouped_summarize_points(case):
    """[(pipe, step index)] of summarize steps applied to an ungrouped table."""
    out = []
    for p in walk_pipes(case["pipe"]):
        grouped = False
        for i, st in enumerate(p["steps"]):
            if st[0] == "group_by":
                grouped = True
            elif st[0] == "ungroup":
                grouped = False
            elif st[0] == "summarize":
                if not grouped:
                    out.append((p, i))
                grouped = False
    return out


def m_F06(case, backend, f):
    if backend != "sqlite" or f["kind"] != "rows":
        return False
    for p in walk_pipes(case["pipe"]):
        seen_arrange = False
        for st in p["steps"]:
            if st[0] == "arrange":
                seen_arrange = True
            if st[0] == "mutate" and seen_arrange:
                for e in step_exprs(st):
                    if e[0] == "fn" and e[1] in ORDER_SENSITIVE and not (len(e) > 3 and e[3].get("arrange")):
                        return True
    return False


def _expr_name(e):
    return e[-1] if isinstance(e, list) and e and e[0] in ("str", "c", "col") else None


def f07_shape(case):
    """a summarize on a grouped table one of whose aggregates carries the (current) name of a grouping column"""
    for p in walk_pipes(case["pipe"]):
        group = []
        for st in p["steps"]:
            if st[0] == "group_by":
                names = [_expr_name(e) for e in st[1]]
                group = (group if (len(st) > 2 and st[2]) else []) + [n for n in names if n]
            elif st[0] == "ungroup":
                group = []
            elif st[0] == "rename":
                ren = {(_expr_name(o) if isinstance(o, list) else o): n for o, n in st[1]}
                group = [ren.get(g, g) for g in group]
            elif st[0] == "summarize":
                if set(group) & {n for n, _ in st[1]}:
                    return True
                group = []
    return False


def m_F07(case, backend, f):
    """SQL export fails with the strict zip() of SqlImpl.export after a grouped summarize (an
    aggregate carrying the name of a grouping column: duplicate label in the select list)"""
    if backend == "sqlite" and f.get("kind") == "l3" and set(f.get("fields", [])) <= {1, 10, 11} and f07_shape(case):
        # the same defect seen one level down: the real compile_ast selects the grouping column and the aggregate
        # under one label; the compile model (one column per name) differs in select / labels / scope exactly there
        return True
    if backend != "sqlite" or f.get("exc") != "ValueError" or "zip()" not in (f.get("msg") or ""):
        return False
    for p in walk_pipes(case["pipe"]):
        grouped = False
        for st in p["steps"]:
            if st[0] == "group_by":
                grouped = True
            elif st[0] == "ungroup":
                grouped = False
            elif st[0] == "summarize":
                if grouped:
                    return True
                grouped = False
    return False


def m_F09(case, backend, f):
    """a second summarize folded into the SELECT of the first: same grouping, or the first one
    ungrouped (an ungrouped summarize leaves no trace in the subquery-detection state)"""
    if backend != "sqlite":
        return False
    if not (f["kind"] == "rows" or (f.get("exc") == "OperationalError" and "GROUP BY" in (f.get("msg") or ""))):
        return False
    ug = ungrouped_summarize_points(case)
    for p in walk_pipes(case["pipe"]):
        since = None
        for i, st in enumerate(p["steps"]):
            if st[0] == "summarize":
                if since is not None:
                    return True
                if any(q is p and j < i for q, j in ug):
                    return True
                since = 0
            if st[0] == "alias":
                since = None
    return False


def m_F13(case, backend, f):
    return (backend == "sqlite" and f["kind"] == "rows" and has_upper(case)
            and any(e[1] in LIKE_OPS for _, _, e in fns(case)))


def m_F15(case, backend, f):
    return f["kind"] == "rows" and any(e[1] == "count_star" and len(e) > 3 and e[3].get("filter")
                                       for _, _, e in fns(case))


def m_F16(case, backend, f):
    return backend == "sqlite" and f["kind"] == "rows" and any(
        st[0] == "slice_head" and st[1] == 0 for p in walk_pipes(case["pipe"]) for st in p["steps"])


def arrange_lists(case):
    for p in walk_pipes(case["pipe"]):
        for st in p["steps"]:
            if st[0] == "arrange":
                yield st[1]
            for e in step_exprs(st):
                if e[0] == "fn" and len(e) > 3 and e[3].get("arrange"):
                    yield e[3]["arrange"]


def const_columns(case):
    """names defined by a mutate whose expression mentions no column"""
    out = set()
    for p in walk_pipes(case["pipe"]):
        for st in p["steps"]:
            if st[0] == "mutate":
                out |= {n for n, e in st[1] if not mentions_col(e)}
    return out


def m_F19(case, backend, f):
    """arrange by a constant expression / constant column: Polars ShapeError; SQL renders `ORDER BY <n>`,
    which is a column position"""
    consts = const_columns(case)

    def is_const_key(o):
        e = o[1]
        return (not mentions_col(e)) or (e[0] in ("col", "c") and e[-1] in consts)
    if not any(is_const_key(o) for l in arrange_lists(case) for o in l):
        return False
    if backend == "polars":
        return f.get("exc") == "ShapeError"
    return (f.get("exc") == "OperationalError" and "ORDER BY term" in (f.get("msg") or "")) or f["kind"] == "rows"


def m_F20(case, backend, f):
    return (backend == "polars" and f["kind"] == "rows"
            and any(e[1] in AGG and e[2] and not mentions_col(e[2][0]) for _, _, e in fns(case)))


def m_F21(case, backend, f):
    return (backend == "sqlite" and f.get("exc") == "OperationalError"
            and "--" in (f.get("msg") or "")
            and any(e[1] == "neg" for _, _, e in fns(case)))


def m_F23(case, backend, f):
    if backend != "sqlite":
        return False
    if not (f["kind"] == "rows" or (f.get("exc") == "OperationalError" and
                                   ("non-aggregate" in (f.get("msg") or "") or "misuse of aggregate" in (f.get("msg") or "")))):
        return False
    for p, i in ungrouped_summarize_points(case):
        if any(st[0] in ("select", "drop", "mutate", "summarize") for st in p["steps"][i + 1:]):
            return True
    return False


def m_F27(case, backend, f):
    if backend != "sqlite" or f["kind"] != "rows":
        return False
    has_union = any(st[0] == "union" for p in walk_pipes(case["pipe"]) for st in p["steps"])
    for _, _, e in fns(case):
        if e[1] == "truediv":
            d = e[2][1]
            if not (d[0] == "lit" and isinstance(d[1], int) and abs(d[1]) in (1, 2, 4, 8)):
                return True
            if has_union:       # the quotient is exact, but its Decimal(38,10) type is the type of the union's column
                return True
    return False


def m_F28(case, backend, f):
    if backend != "sqlite" or f.get("exc") != "OperationalError" or "syntax error" not in (f.get("msg") or ""):
        return False
    for p in walk_pipes(case["pipe"]):
        for i, st in enumerate(p["steps"]):
            if st[0] == "union":
                left = p["steps"][:i]
                right = st[1]["steps"]
                if any(s[0] in ("arrange", "slice_head") for s in left + right):
                    return True
    return False


def m_F29(case, backend, f):
    if f.get("exc") != "KeyError":
        return False
    for p in walk_pipes(case["pipe"]):
        group = []
        hidden = False
        for st in p["steps"]:
            if st[0] == "group_by":
                group = [e[-1] for e in st[1]]
                hidden = False
            if st[0] == "mutate" and any(n in group for n, _ in st[1]):
                hidden = True
            if st[0] in ("select", "drop") and group:
                hidden = True
            if st[0] == "summarize" and hidden:
                return True
    return False


def m_F30(case, backend, f):
    if backend != "sqlite" or f["kind"] != "rows":
        return False
    ug = ungrouped_summarize_points(case)
    for p in walk_pipes(case["pipe"]):
        for i, st in enumerate(p["steps"]):
            if st[0] in ("join", "union"):
                if any(q is st[1] for q, _ in ug) or any(q is p and j < i for q, j in ug):
                    return True
    return False


def m_F31(case, backend, f):
    if backend != "polars" or f.get("exc") not in ("InvalidOperationError", "PanicException"):
        return False
    for p in walk_pipes(case["pipe"]):
        for st in p["steps"]:
            if st[0] == "join" and isinstance(st[2], list):
                eqs = [e for e in st[2] if e[0] == "fn" and e[1] == "equal"]
                for side in (0, 1):
                    keys = [json.dumps(e[2][side]) for e in eqs]
                    if len(set(keys)) < len(keys):
                        return True
    return False


NULL_ABSORBING = {"coalesce", "fill_null", "horizontal_max", "horizontal_min", "is_null", "is_not_null",
                  "count", "count_star", "is_in", "bool_or", "bool_and"}


def m_F37(case, backend, f):
    """left/full join on SQL: a computed column of the null-padded side that is not null on all-null
    input (coalesce, literal-containing horizontal min/max, case, is_null, ...)."""
    if backend != "sqlite" or f["kind"] != "rows":
        return False

    def nn(e):
        """can the expression be non-null when every column it reads is null?"""
        if not isinstance(e, list) or not e:
            return False
        if e[0] in ("lit", "litc"):
            return e[1] is not None
        if e[0] in ("col", "c"):
            return False
        if e[0] == "cast":
            return nn(e[1])
        if e[0] in ("case", "map"):
            return True
        if e[0] == "fn":
            if e[1] in ("is_null", "is_not_null", "count", "count_star"):
                return True
            if e[1] in NULL_ABSORBING:
                return any(nn(a) for a in e[2])
            return bool(e[2]) and all(nn(a) for a in e[2])
        return False

    def absorbing(steps):
        # a computed column that READS a column (a pure constant is const-typed and handled by the subquery rule
        # "left / full join with a table containing a constant column") and is not null on the null padding
        for st in steps:
            if st[0] == "mutate":
                for _, e in st[1]:
                    if mentions_col(e) and nn(e):
                        return True
            elif st[0] == "join" and absorbing(st[1]["steps"]):
                return True     # a computed column that came in through an earlier join of the padded side
        return False
    for p in walk_pipes(case["pipe"]):
        for i, st in enumerate(p["steps"]):
            if st[0] == "join" and st[3] in ("left", "full"):
                if absorbing(st[1]["steps"]) or (st[3] == "full" and absorbing(p["steps"][:i])):
                    return True
    return False


def m_F32(case, backend, f):
    """stale memoised function types after the subquery rewrite (check_subquery re-maps the Col
    leaves of the new verb but the copied ColFn / CaseExpr nodes keep the _ftype computed before)"""
    if backend != "sqlite":
        return False
    has_alias = any(st[0] == "alias" for p in walk_pipes(case["pipe"]) for st in p["steps"])
    if f["kind"] == "exc" and f.get("exc") == "FunctionTypeError" and has_alias \
            and "incompatible function types found in case statement" in (f.get("msg") or ""):
        return True
    return f["kind"] == "l2_cache" and f.get("code") == 3 and f.get("markers", 0) > 0 and has_alias


def m_F33(case, backend, f):
    if f.get("exc") not in ("DuplicateError", "ValueError"):
        return False
    for p in walk_pipes(case["pipe"]):
        group = []
        for st in p["steps"]:
            if st[0] == "group_by":
                names = [e[-1] for e in st[1]]
                if len(set(names)) < len(names) or (st[2] and set(names) & set(group)):
                    return True
                group = (group if st[2] else []) + names
            elif st[0] in ("ungroup", "summarize"):
                group = []
    return False


def m_F38(case, backend, f):
    """polars' optimizer rewrites `x & ~x` to false (and `x | ~x` to true) inside a filter predicate,
    ignoring nulls"""
    if backend != "polars" or f["kind"] != "rows":
        return False
    for p in walk_pipes(case["pipe"]):
        for st in p["steps"]:
            if st[0] == "filter":
                for e in walk_exprs(st[1]):
                    if e[0] == "fn" and e[1] in ("bool_and", "bool_or") and len(e[2]) == 2:
                        a, b = e[2]
                        if b == ["fn", "bool_invert", [a]] or a == ["fn", "bool_invert", [b]]:
                            return True
    return False


def m_F39(case, backend, f):
    """a case expression whose CONDITION uses a window / aggregate column is typed element-wise, so a
    later window function over it is not recognised as nested (SQL: misuse of window function)"""
    if backend != "sqlite" or f.get("exc") != "OperationalError" or "misuse of" not in (f.get("msg") or ""):
        return False
    return any(e[0] == "case" for x in walk_pipes(case["pipe"]) for st in x["steps"] for e in step_exprs(st))


def m_F40(case, backend, f):
    """SQL: cum_sum without `arrange=` (documented form: order given by a preceding arrange verb)"""
    if backend != "sqlite" or f.get("exc") != "TypeError" or "unsupported operand" not in (f.get("msg") or ""):
        return False
    return any(e[1] == "cum_sum" and not (len(e) > 3 and e[3].get("arrange")) for _, _, e in fns(case))


def m_F41(case, backend, f):
    """Polars: horizontal max / min over broadcast scalars only"""
    if backend != "polars" or f.get("exc") != "InvalidOperationError" or "DataFrame height" not in (f.get("msg") or ""):
        return False
    return any(e[1] in ("horizontal_max", "horizontal_min") for _, _, e in fns(case))


def m_F45(case, backend, f):
    """Polars (third party): after a join, horizontal max / min with a literal argument inside a window aggregate"""
    if backend != "polars" or f.get("exc") != "InvalidOperationError" or "output length of `map`" not in (f.get("msg") or ""):
        return False
    has_join = any(st[0] == "join" for p in walk_pipes(case["pipe"]) for st in p["steps"])
    return has_join and any(e[1] in ("horizontal_max", "horizontal_min") and any(isinstance(a, list) and a and a[0] in ("lit", "litc") for a in e[2])
                            for _, _, e in fns(case))


MATCHERS = {
    "F06": m_F06, "F07": m_F07, "F09": m_F09, "F13": m_F13, "F15": m_F15, "F16": m_F16, "F19": m_F19,
    "F20": m_F20, "F21": m_F21, "F23": m_F23, "F27": m_F27, "F28": m_F28, "F29": m_F29, "F30": m_F30,
    "F31": m_F31, "F32": m_F32, "F33": m_F33, "F37": m_F37, "F38": m_F38, "F39": m_F39, "F40": m_F40, "F41": m_F41, "F45": m_F45,
}


def match(case, backend, failure, listed_ids) -> str | None:
    """The id of a listed finding that explains this failure, or None."""
    for fid in listed_ids:
        m = MATCHERS.get(fid)
        if m is not None:
            try:
                if m(case, backend, failure):
                    return fid
            except Exception:  # noqa: BLE001
                continue
    return None


# ---------------------------------------------------------------------------------------------
# dedicated deterministic probes: one minimal case per finding (re-demonstrated on every run)

T6 = {"t": {"cols": [["id", "Int64"], ["a", "Int64"], ["g", "Int64"], ["s", "String"], ["p", "Bool"]],
            "rows": [[1, 5, 1, "ab", True], [2, None, 1, "Abc", False], [3, 3, 2, None, None],
                     [4, 4, 2, "b", True], [5, 1, 3, "a.b", None], [6, 6, 3, "x", False]]}}


def P(steps, tables=None):
    return {"tables": tables or T6, "pipe": {"id": "P", "src": "t", "steps": steps}}


def col(n):
    return ["col", "P@0", n]


PROBES = {
    "F06": P([["arrange", [["ord", col("a"), True, True]]],
              ["mutate", [["x", ["fn", "shift", [col("id"), ["lit", 1], ["lit", None]]]]]],
              ["arrange", [["ord", col("id"), False, None]]]]),
    "F07": P([["group_by", [col("g")], False], ["summarize", [["g", ["fn", "sum", [col("a")]]]]]]),
    "F09": P([["group_by", [col("g")], False], ["summarize", [["s1", ["fn", "sum", [col("a")]]]]],
              ["group_by", [["c", "g"]], False], ["summarize", [["n", ["fn", "count_star", []]]]]]),
    "F13": P([["mutate", [["x", ["fn", "str_starts_with", [col("s"), ["lit", "a"]]]]]]]),
    "F15": P([["summarize", [["n", ["fn", "count_star", [], {"filter": [["fn", "greater_than", [col("id"), ["lit", 2]]]]}]]]]]),
    "F16": P([["arrange", [["ord", col("id"), False, None]]], ["slice_head", 0, 0],
              ["summarize", [["n", ["fn", "count_star", []]]]]]),
    "F19": P([["arrange", [["ord", ["litc", 1], False, None], ["ord", col("id"), False, None]]]]),
    "F20": P([["summarize", [["n", ["fn", "count", [["litc", True]]]]]]]),
    "F21": P([["mutate", [["x", ["fn", "neg", [["litc", -7]]]]]]]),
    "F23": P([["summarize", [["m", ["fn", "max", [col("a")]]]]], ["mutate", [["m", ["lit", 1]]]]]),
    "F27": P([["mutate", [["x", ["fn", "truediv", [col("id"), ["lit", 3]]]]]]]),
    "F28": P([["arrange", [["ord", col("id"), False, None]]],
              ["union", {"id": "Q", "src": "t", "steps": [["alias", False]]}, False]]),
    "F29": P([["group_by", [col("g")], False], ["mutate", [["g", ["fn", "add", [col("g"), ["lit", 1]]]]]],
              ["summarize", [["n", ["fn", "count_star", []]]]]]),
    "F30": P([["join", {"id": "Q", "src": "t", "steps": [["alias", False],
                                                         ["summarize", [["m", ["fn", "max", [["col", "Q@1", "a"]]]]]]]},
               "cross", "inner", None]]),
    "F32": P([["alias", False], ["summarize", [["z", ["fn", "min", [["col", "P@1", "a"]]]]]], ["alias", False],
              ["mutate", [["z1", ["fn", "mean", [["col", "P@3", "z"]], {}]]]],
              ["summarize", [["z2", ["fn", "sum", [["case", [[["fn", "greater_than", [["col", "P@3", "z"], ["lit", 0]]],
                                                             ["col", "P@3", "z"]]], ["c", "z"]]]]]]]]),
    "F33": P([["group_by", [col("g")], False], ["group_by", [["str", "g"]], True],
              ["summarize", [["n", ["fn", "count_star", []]]]]]),
    "F37": P([["join", {"id": "Q", "src": "t", "steps": [["alias", False], ["filter", [["fn", "greater_than", [["col", "Q@1", "id"], ["lit", 3]]]]],
                                                         ["mutate", [["y", ["fn", "coalesce", [["col", "Q@1", "a"], ["lit", 5]]]]]]]},
               [["fn", "equal", [col("id"), ["col", "Q@1", "id"]]]], "left", None]]),
    "F38": P([["filter", [["fn", "bool_xor", [["fn", "is_not_null", [col("id")]],
                                              ["fn", "bool_and", [col("p"), ["fn", "bool_invert", [col("p")]]]]]]]]]),
    "F39": P([["mutate", [["v", ["fn", "max", [col("a")], {}]]]],
              ["mutate", [["w", ["case", [[["fn", "greater_than", [["col", "P@1", "v"], ["lit", 3]]], col("a")]], col("id")]]]],
              ["mutate", [["z", ["fn", "min", [["col", "P@2", "w"]], {}]]]]]),
    "F40": P([["arrange", [["ord", col("id"), False, None]]], ["mutate", [["x", ["fn", "cum_sum", [col("a")], {}]]]]]),
    "F41": {**P([["mutate", [["y", ["fn", "sum", [["fn", "add", [col("a"), ["lit", 2]]]], {}]]]],
                 ["mutate", [["v", ["fn", "horizontal_max", [["c", "y"], ["c", "y"]]]]]]]), "only": ["polars"]},
    "F31": P([["join", {"id": "Q", "src": "t", "steps": [["alias", False]]},
               [["fn", "equal", [col("id"), ["col", "Q@1", "id"]]], ["fn", "equal", [col("id"), ["col", "Q@1", "id"]]]],
               "inner", None]]),
    "F45": {"pipe": {"id": "P0", "src": "t0", "steps": [
                ["join", {"id": "P1", "src": "t1", "steps": []}, [["fn", "equal", [["col", "P0@0", "id"], ["col", "P1@0", "b"]]]], "left", None],
                ["mutate", [["z1", ["fn", "mean", [["fn", "horizontal_min", [["col", "P0@0", "g"], ["lit", 1], ["lit", -1]]]],
                                    {"partition_by": [["col", "P0@0", "s"]]}]]]]]},
            "tables": {"t0": {"cols": [["id", "Int64"], ["b", "Int64"], ["g", "Int64"], ["s", "String"]],
                              "rows": [[1, 6, 0, "bb"]], "shape": "single"},
                       "t1": {"cols": [["id", "Int64"], ["b", "Int64"], ["g", "Int64"], ["s", "String"]],
                              "rows": [[3, 1, 1, "xy"], [1, 1, 0, "a"], [2, -1, 1, "xy"]], "shape": "dups"}},
            "only": ["polars"]},
}
