"""The representative type universe of C13/C17/C19 (mirror of coq/theories/Model/Universe.v; the
C13 cases file re-checks that the two lists are equal)."""
U_BASE = [
    "Int8", "Int16", "Int32", "Int64", "UInt8", "UInt16", "UInt32", "UInt64",
    "Int", "Float32", "Float64", "Float",
    ["dec", 31, 11], ["dec", 10, 2], ["dec", 38, 20],
    ["str", None], ["str", 5], ["str", 20],
    ["enum", ["a", "bcd"]], ["enum", ["x", "yz", "a-long-category"]],
    "Bool", "Date", "Datetime", "Time", "Duration", "NullType",
    ["list", "Int64"], ["list", ["str", None]], ["list", "NullType"],
]
U = U_BASE + [["const", t] for t in U_BASE]
U3_BASE = [
    "Int64", "Int", "Float64", "Float", ["dec", 10, 2], ["str", None], ["str", 5],
    ["enum", ["a", "bcd"]], "Bool", "Date", "Datetime", "Duration", "NullType", ["list", "Int64"],
]
U3 = U3_BASE + [["const", t] for t in U3_BASE]


def tuples(k):
    import itertools
    doms = [U if i < 2 else U3 for i in range(k)]
    return itertools.product(*doms)


def tuples_narrow(k):
    import itertools
    return itertools.product(*([U3] * k))
