"""Shared plumbing of the verification harness: paths, Coq build, case evaluation, evidence,
known findings, violation reports.  Runs under /venv/bin/python with PYTHONPATH=/repo/src."""
from __future__ import annotations

import fcntl
import hashlib
import json
import os
import re
import subprocess
import sys
import time
from contextlib import contextmanager
from pathlib import Path

VERIF = Path(__file__).resolve().parent.parent
COQ = VERIF / "coq"
GEN = COQ / "generated"
CASES = COQ / "cases"
REPO = Path(os.environ.get("VERIF_REPO", "/repo"))
# the committed evidence describes runs against /repo itself; a run against another tree (VERIF_REPO, used to try
# seeded changes) writes its evidence elsewhere
EVID = VERIF / "evidence" if str(REPO) == "/repo" else Path("/tmp/verif_evidence_other_tree")
REPLAYS = VERIF / "replays"
PY = "/venv/bin/python"
NPROC = int(os.environ.get("VERIF_JOBS", "16"))

COQ_ARGS = ["-noglob", "-Q", str(COQ / "theories"), "PDT", "-Q", str(COQ / "generated"), "PDTGen"]      # case files: no .glob


def seed() -> int:
    try:
        return int(os.environ.get("VERIF_SEED", "20260925"))
    except ValueError:
        return 20260925


def log(*a):
    print(*a, file=sys.stderr, flush=True)


@contextmanager
def build_lock():
    """Serialise everything that writes into /verif/coq (parallel checks share one build dir)."""
    lock = VERIF / ".build.lock"
    with open(lock, "w") as fh:
        fcntl.flock(fh, fcntl.LOCK_EX)
        try:
            yield
        finally:
            fcntl.flock(fh, fcntl.LOCK_UN)


def write_if_changed(path: Path, text: str) -> bool:
    path.parent.mkdir(parents=True, exist_ok=True)
    if path.exists() and path.read_text() == text:
        return False
    tmp = path.with_suffix(path.suffix + ".tmp")
    tmp.write_text(text)
    tmp.replace(path)
    return True


def sh(cmd, timeout=1800, cwd=None, env=None, check=False):
    e = dict(os.environ)
    if env:
        e.update(env)
    p = subprocess.run(cmd, cwd=cwd, env=e, capture_output=True, text=True, timeout=timeout)
    if check and p.returncode != 0:
        raise RuntimeError(f"command failed: {cmd}\n{p.stdout}\n{p.stderr}")
    return p


def coq_project():
    """(Re)write _CoqProject and Makefile when the file list changed."""
    files = sorted(
        str(p.relative_to(COQ))
        for d in ("theories", "generated")
        for p in (COQ / d).rglob("*.v")
    )
    text = "-Q theories PDT\n-Q generated PDTGen\n" + "\n".join(files) + "\n"
    changed = write_if_changed(COQ / "_CoqProject", text)
    if changed or not (COQ / "Makefile").exists():
        sh(["coq_makefile", "-f", "_CoqProject", "-o", "Makefile"], cwd=COQ, check=True)


class BuildResult:
    def __init__(self, ok, out, failed_file=None, wall=0.0):
        self.ok, self.out, self.failed_file, self.wall = ok, out, failed_file, wall


def coq_make(targets, timeout=3000) -> BuildResult:
    """make the given .vo targets (full .vo build, never -vos).  Caller holds build_lock."""
    t0 = time.time()
    coq_project()
    cmd = ["make", "-k", f"-j{NPROC}", "--no-print-directory"] + list(targets)
    try:
        p = sh(["timeout", str(timeout)] + cmd, cwd=COQ, timeout=timeout + 60)
    except subprocess.TimeoutExpired:
        return BuildResult(False, "make timed out", None, time.time() - t0)
    out = p.stdout + p.stderr
    failed = None
    if p.returncode != 0:
        m = re.search(r'File "\./([^"]+)", line (\d+)', out)
        if m:
            failed = m.group(1)
    return BuildResult(p.returncode == 0, out, failed, time.time() - t0)


def coqc_file(path: Path, timeout=900):
    """Compile one stand-alone file (cases) and return CompletedProcess.  No lock needed: it only
    reads .vo files and writes next to itself."""
    return sh(["timeout", str(timeout), "coqc"] + COQ_ARGS + [str(path)], cwd=COQ, timeout=timeout + 30)


def parse_assumptions(out: str) -> dict:
    """Parse the output of `Print Assumptions` commands printed during compilation of a
    Properties file.  Returns {"closed": n, "axioms": [names]}."""
    closed = len(re.findall(r"Closed under the global context", out))
    axioms = []
    for m in re.finditer(r"Axioms:\n((?:.+\n?)+?)(?:\n|$)", out):
        for line in m.group(1).splitlines():
            mm = re.match(r"^(\S+)\s*:", line)
            if mm:
                axioms.append(mm.group(1))
    prims = sorted({a for a in axioms if a.startswith(("PrimInt63.", "PrimFloat.", "Uint63.", "PrimArray."))})
    return {"closed": closed, "axioms": sorted(set(axioms) - set(prims)), "kernel_primitives": prims}


def known_findings() -> list:
    p = VERIF / "known_findings.json"
    if not p.exists():
        return []
    return json.loads(p.read_text()).get("findings", [])


def write_replay(prop: str, payload: dict) -> Path:
    d = REPLAYS / prop
    d.mkdir(parents=True, exist_ok=True)
    blob = json.dumps(payload, sort_keys=True, default=str, indent=1)
    h = hashlib.sha1(blob.encode()).hexdigest()[:16]
    p = d / f"{h}.json"
    p.write_text(blob)
    return p


def write_evidence(prop: str, ev: dict):
    EVID.mkdir(exist_ok=True)
    (EVID / f"{prop}.json").write_text(json.dumps(ev, indent=1, sort_keys=True, default=str) + "\n")


def coq_string(s: str) -> str:
    """A Coq string literal for arbitrary bytes-as-latin1 text (only \" needs doubling)."""
    return '"' + s.replace('"', '""') + '"'


def dec_value(v):
    """temporal values travel through the JSON cases as {"$date": "YYYY-MM-DD"} / {"$datetime": iso}"""
    import datetime
    if isinstance(v, dict):
        if "$date" in v:
            return datetime.date.fromisoformat(v["$date"])
        if "$datetime" in v:
            return datetime.datetime.fromisoformat(v["$datetime"])
    return v


def enc_value(v):
    import datetime
    if isinstance(v, datetime.datetime):
        return {"$datetime": v.isoformat()}
    if isinstance(v, datetime.date):
        return {"$date": v.isoformat()}
    return v
