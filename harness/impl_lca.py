"""Runs the real tree/types.py lca_type on every ordered pair of LU and every ordered triple of LU3 (mirrors of
Model/Lca.LU and Proofs/LcaLemmas.LU3; the case file re-checks that the lists are equal) and writes the outcomes
as JSON.  Used by props/c13.py (correspondence with Model/Lca.lca_l + order-independence / totality oracle)."""
from __future__ import annotations

import itertools
import json
import sys

from translate import dtype_to_json, json_to_dtype

LB = ["Int8", "UInt8", "Int16", "Int64", "Int", "Float32", "Float64", "Float", ["dec", 10, 2], ["dec", 31, 11],
      ["str", None], ["str", 5], ["str", 20], ["enum", ["a", "bcd"]], "Bool", "Date", "Datetime", "NullType"]
LB2 = ["UInt8", "Int16", "Int64", "Float64", ["str", 5], ["str", 20], ["dec", 10, 2], "NullType"]
LU = (LB + [["list", t] for t in LB] + [["list", ["list", t]] for t in LB2]
      + [["const", "Int8"], ["const", ["list", "Int64"]], ["const", ["list", ["list", "UInt8"]]], ["const", ["str", 5]]])
LU3 = ["UInt8", "Int16", "Int64", "Int", "Float32", "Float", ["dec", 10, 2], ["str", None], ["str", 5],
       ["enum", ["a", "bcd"]], "Bool", "NullType",
       ["list", "UInt8"], ["list", "Int16"], ["list", "Float64"], ["list", ["str", 5]], ["list", "NullType"],
       ["list", ["list", "UInt8"]], ["list", ["list", "Int16"]], ["list", ["list", ["str", 20]]],
       ["const", ["list", "Int64"]]]


def outcome(ts):
    from pydiverse.transform._internal.errors import DataTypeError
    from pydiverse.transform._internal.tree.types import lca_type
    try:
        return ["T", dtype_to_json(lca_type([json_to_dtype(t) for t in ts]))]
    except DataTypeError:
        return ["DataTypeError"]
    except Exception as e:  # noqa: BLE001
        return ["Other", type(e).__name__]


def main():
    res = {"pairs": [outcome(p) for p in itertools.product(LU, LU)],
           "triples": [outcome(p) for p in itertools.product(LU3, LU3, LU3)]}
    json.dump(res, open(sys.argv[1], "w"))


if __name__ == "__main__":
    main()
