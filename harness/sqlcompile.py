"""L3 correspondence: the transcribed compile_ast (Model/SqlCompile.v) against the real
SqlImpl.compile_ast on the same resolved AST: Query record (select, partition_by, group_by, where,
having, order_by, limit, offset, is_summarized), labels of the selected columns, scope (Cache.cols).
Also reports how many real ASTs satisfy flat_ok, the hypothesis of the compile-correctness theorem
(Properties/C01.v sql_compile_correct)."""
from __future__ import annotations

import re
import subprocess
from concurrent.futures import ThreadPoolExecutor

import common
import ser
from common import CASES

HEADER = """From Coq Require Import List String Ascii NArith ZArith Bool PrimFloat.
From PDT Require Import Model.Dtype Model.Value Model.Ops Model.Expr Model.RefSem Model.SqlCompile Model.SqlCompileCheck.
From PDTGen Require Import Catalogue.
Import ListNotations.
Open Scope string_scope.
"""


class _TransMap:
    """a UidMap view that first translates the identities of the cloned tree back to the original ones"""

    def __init__(self, um, inv):
        self.um, self.inv = um, inv

    def __call__(self, u):
        if u not in self.inv:
            raise KeyError(u)
        return self.um(self.inv[u])

    def coq(self, u):
        return f"{self(u)}%N"


def clone_with_inverse(nd):
    """export compiles a CLONE of the tree: every column identity is re-numbered, and the identities handed
    out by alias() are merged with the ones of the columns below.  Returns (clone, inverse) where inverse maps an
    identity of the clone to the identity the original tree uses for that column at its outermost point
    (alias-new identity if there is one, else the defining one), or None if the tree shares a node object."""
    from pydiverse.transform._internal.backend.table_impl import TableImpl
    from pydiverse.transform._internal.tree import verbs as V
    nodes = list(nd.iter_subtree_preorder())
    if len({id(x) for x in nodes}) != len(nodes):
        return None
    cl, nd_map, umap = nd._clone()
    fwd, inv = {}, {}
    for orig in reversed(nodes):                 # descendants first
        c = nd_map.get(orig)
        if c is None:
            return None
        if isinstance(orig, TableImpl):
            for name, col in orig.cols.items():
                fwd[col._uuid] = c.cols[name]._uuid
                inv[fwd[col._uuid]] = col._uuid
        elif isinstance(orig, (V.Mutate, V.Summarize)):
            for u, cu in zip(orig.uuids, c.uuids, strict=True):
                fwd[u] = cu
                inv[cu] = u
        elif isinstance(orig, V.Alias) and orig.uuid_map is not None:
            for old, new in orig.uuid_map.items():
                if old in fwd:
                    fwd[new] = fwd[old]
                    inv[fwd[new]] = new
    for k, v in umap.items():
        if fwd.get(k) != v:
            return None
    return cl, inv


def real_compiled(tbl, um: ser.UidMap):
    """(query, labels, scope) of the real compiler as Gallina terms; raises on anything unexpected."""
    from pydiverse.transform._internal.backend.sql import SqlImpl
    from pydiverse.transform._internal.pipe.cache import Cache
    from pydiverse.transform._internal.tree import verbs as V
    backend = tbl._cache.backend
    if not issubclass(backend, SqlImpl):
        return None
    ci = clone_with_inverse(tbl._ast)
    if ci is None:
        return None
    nd, inv = ci
    scope_um = um
    um = _TransMap(um, inv)
    final_select = Cache.from_ast(nd).selected_cols()
    # the select lists of the two operands of every union, in the order the unions are built: compile_query is
    # wrapped to remember the select list of the statement it returns, sqlalchemy.union / union_all to log them
    import sqlalchemy as _sqa
    log, made, keep = [], {}, []
    orig = backend.__dict__.get("compile_query") or SqlImpl.__dict__["compile_query"]

    def logged(cls, table, query, sqa_expr):
        sel = orig.__func__(cls, table, query, sqa_expr)
        made[id(sel)] = list(query.select)
        keep.append(sel)
        return sel
    had_own = "compile_query" in backend.__dict__
    backend.compile_query = classmethod(logged)
    o_union, o_union_all = _sqa.union, _sqa.union_all

    def w_union(*sels, **kw):
        log.extend(made.get(id(x), []) for x in sels)
        return o_union(*sels, **kw)

    def w_union_all(*sels, **kw):
        log.extend(made.get(id(x), []) for x in sels)
        return o_union_all(*sels, **kw)
    _sqa.union, _sqa.union_all = w_union, w_union_all
    try:
        _, q, sqa_expr = backend.compile_ast(nd, {col._uuid: 1 for col in final_select})
    finally:
        _sqa.union, _sqa.union_all = o_union, o_union_all
        if had_own:
            backend.compile_query = orig
        else:
            del backend.compile_query

    def ul(us):
        return "[" + "; ".join(um.coq(u) for u in us) + "]"

    def el(es):
        return "[" + "; ".join(ser.expr_to_coq(e, um) for e in es) + "]"
    lim = "None" if q.limit is None else f"(Some ({int(q.limit)})%Z)"
    off = int(q.offset or 0)
    query = ("{| q_select := " + ul(q.select) + "; q_part := " + ul(c._uuid for c in q.partition_by)
             + "; q_group := " + ul(q.group_by) + ";\n   q_where := " + el(q.where) + "; q_having := " + el(q.having)
             + ";\n   q_order := [" + "; ".join(ser.order_to_coq(o, um) for o in q.order_by) + "]; q_limit := " + lim
             + f"; q_offset := ({off})%Z; q_summ := {'true' if q.is_summarized else 'false'} |}}")
    labels = "[" + "; ".join(f"({um.coq(u)}, {ser.str_to_coq(sqa_expr[u].name)})" for u in q.select) + "]"
    scope = "[" + "; ".join(scope_um.coq(u) for u in tbl._cache.cols.keys()) + "]"
    return query, labels, scope, "[" + "; ".join(ul(x) for x in log) + "]"


def evaluate(name, items, shard=150):
    """items: list of (key, ast_coq, (query, labels, scope, compile_query log)).  Returns {key: (in_domain, [diff codes], flat)}, errors"""
    CASES.mkdir(parents=True, exist_ok=True)
    files = []
    for s0 in range(0, len(items), shard):
        txt = [HEADER]
        ents = []
        for j, (key, a, (q, l, sc, lg)) in enumerate(items[s0:s0 + shard]):
            i = s0 + j
            txt.append(f"Definition a{i} : ast := {a}.")
            txt.append(f"Definition q{i} : query := {q}.")
            ents.append(f"({j}, l3_check a{i} q{i} {l} {sc} {lg})")        # file-local number (a large nat literal is unary)
        txt.append("Eval vm_compute in [" + ";\n ".join(ents) + "]%nat.\n")
        f = CASES / f"{name}_l3_{s0 // shard}.v"
        f.write_text("\n".join(txt))
        files.append((f, s0))

    def go(fo):
        f = fo[0]
        return subprocess.run(["bash", "-c", f"ulimit -s unlimited; timeout 900 coqc {' '.join(common.COQ_ARGS)} {f}"],
                              capture_output=True, text=True, cwd=common.COQ)
    res, errors = {}, []
    with ThreadPoolExecutor(common.NPROC) as ex:
        for (f, off), p in zip(files, ex.map(go, files)):
            if p.returncode != 0:
                errors.append(f"{f.name}: {(p.stderr or p.stdout)[-1200:]}")
                continue
            flat = re.sub(r"%nat|\s", "", p.stdout)
            for m in re.finditer(r"\((\d+),\((\d+),\[([\d;]*)\],(\d+)\)\)|\((\d+),(\d+),\[([\d;]*)\],(\d+)\)", flat):
                g = m.groups()
                if g[0] is not None:
                    i, dom, diff, fl = g[0], g[1], g[2], g[3]
                else:
                    i, dom, diff, fl = g[4], g[5], g[6], g[7]
                res[items[int(i) + off][0]] = (int(dom), [int(x) for x in diff.split(";") if x], int(fl))
    return res, errors


PL_HEADER = """From Coq Require Import List String Ascii NArith ZArith Bool PrimFloat.
From PDT Require Import Model.Dtype Model.Value Model.Ops Model.Expr Model.RefSem Model.PlCompile Model.PlCompileCheck.
From PDTGen Require Import Catalogue.
Import ListNotations.
Open Scope string_scope.
"""
PL_FIELD = {1: "select", 2: "partition_by", 3: "the columns recorded in name_in_df", 4: "a frame name in name_in_df",
            5: "the frame's schema"}


def kname(s: str) -> str:
    """a frame name as (written by the user?, base name): `<name>:<hex>` is a suffixed hidden column"""
    m = re.fullmatch(r"(.*):([0-9a-f]{16,})", s, re.S)
    if m:
        return f"(false, {ser.str_to_coq(m.group(1))})"
    return f"(true, {ser.str_to_coq(s)})"


def real_polars(tbl, um: ser.UidMap):
    """(select, partition_by, name_in_df, schema) of the real Polars compile_ast as Gallina terms"""
    from pydiverse.transform._internal.backend import polars as P
    from pydiverse.transform._internal.tree import verbs as V
    if not issubclass(tbl._cache.backend, P.PolarsImpl):
        return None
    ci = clone_with_inverse(tbl._ast)
    if ci is None:
        return None
    nd, inv = ci
    um = _TransMap(um, inv)
    lf, name_in_df, select, partition_by = P.compile_ast(nd)

    def ul(us):
        return "[" + "; ".join(um.coq(u) for u in us) + "]"
    names = "[" + "; ".join(f"({um.coq(u)}, {kname(n)})" for u, n in name_in_df.items()) + "]"
    keys = "[" + "; ".join(kname(n) for n in lf.collect_schema().names()) + "]"
    return ul(select), ul(partition_by), names, keys


def evaluate_polars(name, items, shard=120):
    """items: list of (key, db_coq, ast_coq, (select, part, names, keys))"""
    CASES.mkdir(parents=True, exist_ok=True)
    files = []
    for s0 in range(0, len(items), shard):
        txt = [PL_HEADER]
        ents = []
        for j, (key, dbc, a, (sel, part, names, keys)) in enumerate(items[s0:s0 + shard]):
            i = s0 + j
            txt.append(f"Definition d{i} : db := {dbc}.")
            txt.append(f"Definition a{i} : ast := {a}.")
            ents.append(f"({j}, pl3_check d{i} a{i} {sel} {part} {names} {keys})")
        txt.append("Eval vm_compute in [" + ";\n ".join(ents) + "]%nat.\n")
        f = CASES / f"{name}_pl3_{s0 // shard}.v"
        f.write_text("\n".join(txt))
        files.append((f, s0))

    def go(fo):
        f = fo[0]
        return subprocess.run(["bash", "-c", f"ulimit -s unlimited; timeout 900 coqc {' '.join(common.COQ_ARGS)} {f}"],
                              capture_output=True, text=True, cwd=common.COQ)
    res, errors = {}, []
    with ThreadPoolExecutor(common.NPROC) as ex:
        for (f, off), p in zip(files, ex.map(go, files)):
            if p.returncode != 0:
                errors.append(f"{f.name}: {(p.stderr or p.stdout)[-1200:]}")
                continue
            flat = re.sub(r"%nat|\s", "", p.stdout)
            for m in re.finditer(r"\((\d+),\((\d+),\[([\d;]*)\],(\d+)\)\)|\((\d+),(\d+),\[([\d;]*)\],(\d+)\)", flat):
                g = m.groups()
                i, dom, diff, fl = (g[0], g[1], g[2], g[3]) if g[0] is not None else (g[4], g[5], g[6], g[7])
                res[items[int(i) + off][0]] = (int(dom), [int(x) for x in diff.split(";") if x], int(fl))
    return res, errors


FIELD = {1: "select", 2: "partition_by", 3: "group_by", 4: "where", 5: "having", 6: "order_by", 7: "limit", 8: "offset",
         9: "is_summarized", 10: "label of a selected column", 11: "scope (Cache.cols)",
         12: "select lists of the union operands (compile_query calls)"}
