#!/bin/bash
# Re-check every Properties/*.vo and everything it depends on with the independent checker (coqchk -o) after a
# full rebuild from /repo's current tree; writes evidence/coqchk.txt (axioms per property).  Several minutes.
HERE="$(dirname "$(readlink -f "$0")")"; V="$HERE/.."
cd "$V" && ./check --setup > /dev/null 2>&1 || { echo "setup failed"; exit 1; }
cd "$V/coq"; tmp=$(mktemp -d "$V/coq/cases/chk.XXXX"); rc=0
ls theories/Properties/*.v | sed 's#.*/##; s#\.v##' | xargs -P 8 -I{} sh -c \
  "timeout 2400 coqchk -silent -o -Q theories PDT -Q generated PDTGen PDT.Properties.{} > $tmp/{}.out 2>&1; echo \$? > $tmp/{}.rc"
{
  echo "coqchk -o over Properties/*.vo ($(coqchk --version 2>/dev/null | head -1))"
  for f in $(ls $tmp/*.out | sort); do
    p=$(basename $f .out); r=$(cat $tmp/$p.rc)
    echo "== $p exit=$r"
    [ "$r" != "0" ] && { rc=1; tail -3 $f; }
    # axioms section of the checker's summary; kernel primitives (PrimFloat / PrimInt63 / Uint63 specs) are listed as such
    awk '/^\* Axioms:/{f=1} /^\* Constants\/Inductives relying on type-in-type/{f=0} f' $f | grep -v "^ *$" | sed 's/^/   /' | sort -u | head -80
    grep -A1 "type-in-type\|unsafe (co)fixpoints\|positivity is assumed" $f | grep -v "^--" | tr '\n' ' ' | sed 's/  */ /g'; echo
  done
} > "$V/evidence/coqchk.txt"
rm -rf "$tmp"
tail -3 "$V/evidence/coqchk.txt"; exit $rc
