"""Pipeline descriptions (JSON, backend independent) and their instantiation on the real package.

case  = {"tables": {name: {"cols": [[col, dtype], ...], "rows": [[...], ...]}}, "pipe": pipe}
pipe  = {"id": "P0", "src": table name, "steps": [step, ...]}
step  = ["select", [expr]] | ["drop", [expr]] | ["rename", [[old, new], ...]]
      | ["mutate", [[name, expr], ...]] | ["filter", [expr]] | ["arrange", [ord]]
      | ["slice_head", n, offset] | ["group_by", [expr], add] | ["ungroup"]
      | ["summarize", [[name, expr], ...]] | ["alias", keep_col_refs] | ["collect"]
      | ["join", pipe, [expr] | "cross", how, suffix|None] | ["union", pipe, distinct]
expr  = ["col", point, name]   point = "<pipe id>@<k>": the table after k steps of that pipe
      | ["c", name] | ["lit", value] | ["fn", opvar, [expr], {"partition_by": [expr],
        "arrange": [ord], "filter": [expr]}] | ["case", [[cond, val], ...], default|None]
      | ["cast", expr, dtype_json] | ["str", name]     (a plain string where the API takes one)
ord   = ["ord", expr, descending, nulls_last|None]
"""
from __future__ import annotations

import operator
import warnings

DUNDER = {
    "add": operator.add, "sub": operator.sub, "mul": operator.mul, "truediv": operator.truediv,
    "floordiv": operator.floordiv, "mod": operator.mod, "pow": operator.pow,
    "equal": operator.eq, "not_equal": operator.ne, "less_than": operator.lt,
    "less_equal": operator.le, "greater_than": operator.gt, "greater_equal": operator.ge,
    "bool_and": operator.and_, "bool_or": operator.or_, "bool_xor": operator.xor,
    "neg": operator.neg, "pos": operator.pos, "bool_invert": operator.invert,
}

PL_TYPES = None


def pl_type(name):
    import polars as pl
    return {"Int64": pl.Int64, "Int32": pl.Int32, "Int16": pl.Int16, "Int8": pl.Int8,
            "Float64": pl.Float64, "Float32": pl.Float32, "String": pl.String, "Bool": pl.Boolean,
            "Date": pl.Date, "Datetime": pl.Datetime("us"), "Null": pl.Null}[name]


REC = []          # (cache object, node, result) of every Cache.requires_subquery call (L2 tie)
_PATCHED = False


def patch_requires_subquery():
    """Observe the decisions of the real Cache.requires_subquery without touching /repo: wrap the
    class attribute in this process."""
    global _PATCHED
    if _PATCHED:
        return
    from pydiverse.transform._internal.pipe.cache import Cache
    orig = Cache.requires_subquery

    def rec(self, node):
        r = orig(self, node)
        REC.append((self, node, r))
        return r
    Cache.requires_subquery = rec
    _PATCHED = True


class Outcome:
    """Result of instantiating a pipe on one backend."""

    def __init__(self):
        self.exc = None          # exception class name raised by a verb call
        self.exc_msg = None
        self.exc_at = None       # (pipe id, step index)
        self.table = None        # final table
        self.points = {}         # "<pid>@<k>" -> table
        self.sources = {}        # id(TableImpl) -> source name
        self.decisions = {}      # "<pid>@<k>" -> (verb node as first tested, reason or None)
        self.failed = {}         # side pipe id -> (exc, msg, at) in tolerant mode


class Instantiator:
    def __init__(self, case, backend: str, engine_cache=None):
        self.case = case
        self.backend = backend
        self.engine_cache = engine_cache if engine_cache is not None else {}
        self.out = Outcome()
        self._ops = None
        self.shared = {}          # key -> expression object reused wherever ["shared", key, e] occurs (C10)
        self.share = True
        self.on_point = None      # callback(point key, table) after every verb call (C10 sessions)

    # ---- sources -----------------------------------------------------------------------------
    def source(self, name):
        import polars as pl
        import pydiverse.transform as pdt

        t = self.case["tables"][name]
        schema = {c: pl_type(ty) for c, ty in t["cols"]}
        import common
        df = pl.DataFrame([[common.dec_value(v) for v in r] for r in t["rows"]], schema=schema, orient="row")
        if self.backend == "polars":
            tbl = pdt.Table(df, name=name)
        elif self.backend in ("postgres", "mssql"):
            import dialects
            tbl = dialects.table(self.backend, name, t["cols"])
        else:
            import sqlalchemy as sqa
            eng = self.engine_cache.get("engine")
            if eng is None:
                eng = sqa.create_engine("sqlite://")
                self.engine_cache["engine"] = eng
                self.engine_cache["written"] = set()
            if name not in self.engine_cache["written"]:
                df.write_database(name, eng, if_table_exists="replace")
                self.engine_cache["written"].add(name)
            tbl = pdt.Table(name, pdt.SqlAlchemy(eng))
        self.out.sources[id(tbl._ast)] = name
        return tbl

    # ---- expressions ---------------------------------------------------------------------------
    def op(self, opvar):
        if self._ops is None:
            from translate import all_operators
            self._ops = dict(all_operators())
        return self._ops[opvar]

    def expr(self, e):
        import pydiverse.transform as pdt
        from pydiverse.transform._internal.tree.col_expr import ColFn

        k = e[0]
        if k == "shared":
            if not self.share:
                return self.expr(e[2])
            if e[1] not in self.shared:
                self.shared[e[1]] = self.expr(e[2])
                if getattr(self, "on_shared", None) is not None:
                    self.on_shared(e[1], self.shared[e[1]])       # before its first use (C10: fingerprint at creation)
            return self.shared[e[1]]
        if k == "col":
            return self.out.points[e[1]][e[2]]
        if k == "c":
            return getattr(pdt.C, e[1])
        if k == "str":
            return e[1]
        if k == "lit":
            import common
            return common.dec_value(e[1])
        if k == "litc":                  # an explicit pdt.lit(...) wrapper
            import common
            return pdt.lit(common.dec_value(e[1]))
        if k == "fn":
            opvar, args = e[1], [self.expr(a) for a in e[2]]
            ctx = e[3] if len(e) > 3 else {}
            kw = {}
            for key, val in ctx.items():
                if key == "arrange":
                    kw[key] = [self.order(o) for o in val]
                else:
                    kw[key] = [self.expr(x) for x in val]
            if opvar in DUNDER and not kw:
                from pydiverse.transform._internal.tree.col_expr import ColExpr
                if not any(isinstance(a, ColExpr) for a in args):
                    args[0] = pdt.lit(args[0])
                return DUNDER[opvar](*args)
            return ColFn(self.op(opvar), *args, **kw)
        if k == "case":
            w = None
            for c, v in e[1]:
                w = (pdt.when(self.expr(c)) if w is None else w.when(self.expr(c))).then(self.expr(v))
            if e[2] is not None:
                return w.otherwise(self.expr(e[2]))
            return w
        if k == "map":
            x = self.expr(e[1])
            mapping = {}
            for keys, val in e[2]:
                ks = tuple(self.expr(q) for q in keys)
                mapping[ks if len(ks) > 1 else ks[0]] = self.expr(val)
            if e[3] is not None:
                return x.map(mapping, default=self.expr(e[3]))
            return x.map(mapping)
        if k == "cast":
            from translate import json_to_dtype
            x = self.expr(e[1])
            from pydiverse.transform._internal.tree.col_expr import ColExpr
            if not isinstance(x, ColExpr):
                x = pdt.lit(x)
            return x.cast(json_to_dtype(e[2]))
        if k == "ord":
            return self.order(e)
        raise ValueError(f"bad expr {e!r}")

    def order(self, o):
        import pydiverse.transform as pdt
        from pydiverse.transform._internal.tree.col_expr import ColExpr
        if o[0] == "shared":          # one order key object reused in several tables (C10)
            return self.expr(o)
        x = self.expr(o[1])
        if not isinstance(x, ColExpr):
            x = pdt.lit(x)
        if o[2]:
            x = x.descending()
        if o[3] is True:
            x = x.nulls_last()
        elif o[3] is False:
            x = x.nulls_first()
        return x

    # ---- verbs ---------------------------------------------------------------------------------
    def step(self, tbl, st):
        from pydiverse.transform import extended as X
        k = st[0]
        if k == "select":
            return tbl >> X.select(*[self.expr(c) for c in st[1]])
        if k == "drop":
            return tbl >> X.drop(*[self.expr(c) for c in st[1]])
        if k == "rename":
            return tbl >> X.rename({(self.expr(o) if isinstance(o, list) else o): n for o, n in st[1]})
        if k == "mutate":
            return tbl >> X.mutate(**{n: self.expr(e) for n, e in st[1]})
        if k == "filter":
            return tbl >> X.filter(*[self.expr(e) for e in st[1]])
        if k == "arrange":
            return tbl >> X.arrange(*[self.order(o) for o in st[1]])
        if k == "slice_head":
            return tbl >> X.slice_head(st[1], offset=st[2])
        if k == "group_by":
            return tbl >> X.group_by(*[self.expr(c) for c in st[1]], add=st[2])
        if k == "ungroup":
            return tbl >> X.ungroup()
        if k == "summarize":
            return tbl >> X.summarize(**{n: self.expr(e) for n, e in st[1]})
        if k == "alias":
            if len(st) > 2 and st[2] is not None:
                return tbl >> X.alias(st[2], keep_col_refs=bool(st[1]))
            return tbl >> X.alias(keep_col_refs=bool(st[1]))
        if k == "collect":
            return tbl >> X.collect()
        if k == "join":
            right = self.out.points[st[1]["ref"]] if "ref" in st[1] else self.pipe(st[1])
            if st[2] == "cross":
                return tbl >> X.cross_join(right, suffix=st[4])
            on = [self.expr(e) for e in st[2]]
            return tbl >> X.join(right, on, st[3], suffix=st[4])
        if k == "union":
            right = self.out.points[st[1]["ref"]] if "ref" in st[1] else self.pipe(st[1])
            return tbl >> X.union(right, distinct=st[2])
        raise ValueError(f"bad step {st!r}")

    def pipe(self, p):
        tbl = self.out.points[p["from"]] if "from" in p else self.source(p["src"])
        self.out.points[f"{p['id']}@0"] = tbl
        if self.on_point is not None and "from" not in p:
            self.on_point(f"{p['id']}@0", tbl)
        for i, st in enumerate(p["steps"], 1):
            try:
                n0 = len(REC)
                prev_cache = tbl._cache
                try:
                    tbl = self.step(tbl, st)
                finally:
                    for cch, node, r in REC[n0:]:
                        if cch is prev_cache:
                            self.out.decisions[f"{p['id']}@{i}"] = (node, r)
                            break
                    del REC[n0:]
            except _Abort:
                raise
            except (KeyboardInterrupt, SystemExit):
                raise
            except BaseException as ex:  # noqa: BLE001  (pyo3 PanicException is a BaseException)
                self.out.exc = type(ex).__name__
                self.out.exc_msg = str(ex)[:300]
                self.out.exc_at = (p["id"], i)
                raise _Abort() from ex
            self.out.points[f"{p['id']}@{i}"] = tbl
            if self.on_point is not None:
                self.on_point(f"{p['id']}@{i}", tbl)
        return tbl

    def run(self) -> Outcome:
        tolerant = getattr(self, "tolerant", False)

        def side(xp):
            if not tolerant:
                self.pipe(xp)
                return
            try:
                self.pipe(xp)
            except _Abort:
                self.out.failed[xp["id"]] = (self.out.exc, self.out.exc_msg, self.out.exc_at)
                self.out.exc = self.out.exc_msg = self.out.exc_at = None
            except KeyError as ex:          # branches from a table that was never built
                self.out.failed[xp["id"]] = ("<not built>", str(ex), None)
        with warnings.catch_warnings():
            warnings.simplefilter("ignore")
            try:
                for xp in self.case.get("extra_pipes", []):     # unrelated tables (stale-reference probes)
                    side(xp)
                self.out.table = self.pipe(self.case["pipe"])
            except _Abort:
                pass
            if tolerant or self.out.exc is None:
                for xp in self.case.get("late_pipes", []):      # branches applied after the main pipe (C10)
                    side(xp)
        return self.out


class _Abort(Exception):
    pass


def export_frame(tbl):
    """(names, rows, polars schema names) of export(Polars()), canonicalised (DESIGN section 6)."""
    import polars as pl
    import pydiverse.transform as pdt
    from pydiverse.transform import extended as X

    with warnings.catch_warnings():
        warnings.simplefilter("ignore")
        df = tbl >> X.export(pdt.Polars())
    raw_dtypes = [str(t) for t in df.dtypes]
    casts = {c: pl.Float64 for c, t in df.schema.items() if isinstance(t, pl.Decimal)}
    # finding #22: SQLite exports NOT(<conjunction>) as integer; values are compared as booleans,
    # the type mismatch itself is C12's business
    try:
        from pydiverse.transform._internal.tree import types as T
        from pydiverse.common import Bool
        static = {c.name: T.without_const(c.dtype()) for c in tbl}
        for c, t in df.schema.items():
            if t.is_integer() and static.get(c) == Bool():
                casts[c] = pl.Boolean
    except Exception:  # noqa: BLE001
        pass
    if casts:
        df = df.cast(casts)
    return list(df.columns), [list(r) for r in df.rows()], raw_dtypes
