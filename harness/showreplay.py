import json,sys
for fn in sys.argv[1:]:
    r=json.load(open(fn))
    print("=====",fn, r['what'])
    if 'case' not in r: print(json.dumps(r)[:1500]); continue
    print(json.dumps(r['case']['pipe']))
    print(json.dumps({k:{'rows':t['rows'][:8]} for k,t in r['case']['tables'].items()})[:700])
    for b,o in r['observed'].items(): print(b, 'exc=',o['exc'], (o['exc_msg'] or '')[:200], 'export_exc=',o['export_exc'], (o['export_exc_msg'] or '')[:400], 'names=',o['names'],'rows=',(o['rows'] or [])[:6])
    print((r.get('reference') or '')[-700:])
