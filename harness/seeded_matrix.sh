#!/bin/bash
# Runs every seeded change under /verif/seeded against the quick check of the property it targets (plus any
# further checks given in seeded/<id>/also.txt) and rewrites the table in seeded/RESULTS.md from what was observed.
cd "$(dirname "$(readlink -f "$0")")/.."
out=${OUT:-seeded/matrix.tsv}; : > $out
for d in ${SEEDS:-seeded/C*/}; do
  s=$(basename $d); p=${s:0:3}
  checks="$p $(cat $d/also.txt 2>/dev/null)"
  for c in $checks; do
    r=$(harness/trymut.sh $d/patch.diff $c 2>&1)
    if echo "$r" | grep -q "VIOLATION property=$c"; then
      how=$(echo "$r" | grep -A1 "VIOLATION property=$c" | grep "^  " | head -1 | sed 's/^ *//' | cut -c1-170)
      nf=$(echo "$r" | grep -c "no-failing-input-found")
      echo -e "$s\t$c\tcaught\t$how\t$nf" >> $out
    else
      echo -e "$s\t$c\tMISSED\t$(echo "$r" | tail -1 | cut -c1-100)\t0" >> $out
    fi
  done
done
cat $out
