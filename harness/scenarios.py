"""Directed scenario grids: deterministic products of pipeline building blocks that target INTERACTIONS of
features (hidden / overwritten / renamed columns x grouping state x window columns x limit x alias /
subquery x join / union variants).  The random generator (gen.py) reaches such combinations too rarely at
quick-tier sizes; the third round of seeded changes (seeded/RESULTS.md) showed which ones matter.
Every family returns a list of cases in the JSON pipeline format of pipes.py; they are passed to
pipeprop.run(extra_cases=...) and go through L1 / L2 / L3, the finding matchers and the oracles like any
generated case."""
from __future__ import annotations

import itertools

T_COLS = [["id", "Int64"], ["a", "Int64"], ["b", "Int64"], ["g", "Int64"], ["s", "String"], ["p", "Bool"]]
T_ROWS = [[1, 5, 2, 1, "ab", True], [2, None, 4, 1, "b", False], [3, 3, -1, 2, None, None], [4, 4, 4, 2, "b", True],
          [5, 1, 0, 3, "a b", None], [6, 6, 7, 3, "x", False], [7, -2, 2, 1, "ab", True], [8, 3, None, None, "x", False]]
T2_COLS = [["id", "Int64"], ["a", "Int64"], ["c", "Int64"], ["g", "Int64"], ["s", "String"]]
T2_ROWS = [[1, 5, 10, 1, "ab"], [2, 3, 20, 2, "zz"], [3, None, 30, 2, None], [9, 3, 40, 4, "b"], [10, 7, None, None, "x"]]


def tables():
    return {"t": {"cols": T_COLS, "rows": T_ROWS}, "u": {"cols": T2_COLS, "rows": T2_ROWS}}


class B:
    """pipeline builder that knows the index of the current point"""

    def __init__(self, pid="P", src="t"):
        self.pid, self.src, self.steps = pid, src, []
        self.x = "a"            # an Int column that exists
        self.key = ["id"]       # columns that order the rows totally (None: no such column)
        self.gcol = "g"         # a column to group by
        self.win = None         # handle of a window column (reference through the table where it was defined)
        self.win_visible = False
        self.refs_ok = True     # object references into earlier points still valid (no plain alias since)

    def k(self):
        return len(self.steps)

    def here(self, name):
        return ["col", f"{self.pid}@{self.k()}", name]

    def add(self, *steps):
        self.steps.extend(steps)
        return self

    def pipe(self):
        return {"id": self.pid, "src": self.src, "steps": self.steps}


def fn(op, *args, **ctx):
    return ["fn", op, list(args), ctx] if ctx else ["fn", op, list(args)]


def lit(v):
    return ["lit", v]


def C(n):
    return ["c", n]


def o(e, desc=False, nl=True):
    return ["ord", e, desc, nl]


# ----------------------------------------------------------------------------------------- family A
def prefixes():
    def plain(b):
        pass

    def win_vis(b, part=False):
        ctx = {"partition_by": [C("g")]} if part else {}
        b.add(["mutate", [["w", fn("sum", C("a"), **ctx)]]])
        b.win = b.here("w")
        b.win_visible = True

    def win_hidden_select(b):
        win_vis(b)
        b.add(["select", [C(n) for n in ("id", "a", "b", "g", "s", "p")]])
        b.win_visible = False

    def win_hidden_drop(b):
        win_vis(b, part=True)
        b.add(["drop", [C("w")]])
        b.win_visible = False

    def win_overwritten(b):
        win_vis(b)
        b.add(["mutate", [["w", fn("add", C("a"), lit(1))]]])
        b.win_visible = False

    def const(b):
        b.add(["mutate", [["k7", lit(7)]]])

    def sliced(b):
        b.add(["arrange", [o(C("id"))]], ["slice_head", 5, 1])

    def summ_g(b):
        b.add(["group_by", [C("g")], False], ["summarize", [["m", fn("max", C("a"))], ["n", fn("count_star")]]])
        b.x, b.key, b.gcol = "m", ["g"], "g"

    def summ_u(b):
        b.add(["summarize", [["m", fn("max", C("a"))], ["n", fn("count_star")]]])
        b.x, b.key, b.gcol = "m", [], "n"

    def grouped(b):
        b.add(["group_by", [C("g")], False])

    def grouped2(b):
        b.add(["group_by", [C("g")], False], ["group_by", [C("p")], True])

    def filtered(b):
        b.add(["filter", [fn("greater_than", C("a"), lit(0))]])

    def arranged(b):
        b.add(["arrange", [o(C("a"), True, True), o(C("id"))]])

    def renamed(b):
        b.add(["rename", [["a", "b"], ["b", "a"]]])

    def hidden_overwrite(b):
        b.add(["mutate", [["a", fn("add", C("b"), lit(100))]]])

    def grouped_win(b):
        b.add(["group_by", [C("g")], False], ["mutate", [["w", fn("max", C("a"))]]])
        b.win = b.here("w")
        b.win_visible = True

    def grouped2_win(b):
        b.add(["group_by", [C("g")], False], ["group_by", [C("p")], True], ["mutate", [["w", fn("count_star")]]])
        b.win = b.here("w")
        b.win_visible = True

    def grouped_filtered(b):
        b.add(["group_by", [C("g")], False], ["filter", [fn("is_not_null", C("a"))]])

    return [grouped_win, grouped2_win, grouped_filtered, plain, win_vis, lambda b: win_vis(b, True), win_hidden_select, win_hidden_drop, win_overwritten, const, sliced,
            summ_g, summ_u, grouped, grouped2, filtered, arranged, renamed, hidden_overwrite]


def aliases():
    def none(b):
        pass

    def keep(b):
        b.add(["alias", True])

    def plain(b):
        b.add(["alias", False])
        b.refs_ok = False
    return [none, keep, plain]


def verbs_a():
    def filter_elem(b):
        b.add(["filter", [fn("greater_than", C(b.x), lit(0))]])

    def filter_win(b):
        if not b.win_visible:
            return False
        b.add(["filter", [fn("greater_than", C("w"), lit(3))]])

    def mutate_elem(b):
        b.add(["mutate", [["y", fn("add", C(b.x), lit(1))]]])

    def mutate_hidden(b):
        if b.win is None or not b.refs_ok:
            return False
        b.add(["mutate", [["y", fn("add", b.win, lit(0))]]])

    def mutate_win(b):
        b.add(["mutate", [["v", fn("sum", C(b.x))]]])

    def mutate_win_part(b):
        b.add(["mutate", [["v", fn("max", C(b.x), partition_by=[C(b.gcol)])]]])

    def summarize(b):
        b.add(["summarize", [["z", fn("sum", C(b.x))], ["n2", fn("count_star")]]])
        b.x, b.key = "z", []

    def arrange(b):
        b.add(["arrange", [o(C(b.x), True, True)] + [o(C(kc)) for kc in b.key]])

    def slice_(b):
        if not b.key:
            return False
        b.add(["arrange", [o(C(kc)) for kc in b.key]], ["slice_head", 3, 1])

    def group_summ(b):
        b.add(["group_by", [C(b.gcol)], False], ["summarize", [["z", fn("sum", C(b.x))]]])
        b.key, b.x = [b.gcol], "z"

    def group_add_summ(b):
        b.add(["group_by", [C(b.gcol)], True], ["summarize", [["z", fn("min", C(b.x))]]])
        b.key, b.x = None, "z"

    def select_rev(b):
        return False if b.x != "a" else b.add(["select", [C(n) for n in ("s", "g", "a", "id")]]) and None

    return [filter_elem, filter_win, mutate_elem, mutate_hidden, mutate_win, mutate_win_part, summarize, arrange, slice_,
            group_summ, group_add_summ, select_rev]


def followers():
    def none(b):
        pass

    def mutate_after(b):
        b.add(["mutate", [["q", fn("mul", C(b.x), lit(2))]]])

    def summarize_after(b):
        b.add(["summarize", [["cnt", fn("count_star")], ["mx", fn("max", C(b.x))]]])

    def hidden_after(b):
        if b.win is None or not b.refs_ok:
            return False
        b.add(["mutate", [["h", fn("add", b.win, lit(0))]]])

    return [none, mutate_after, summarize_after, hidden_after]


def family_a():
    out = []
    for pf, al, vb, fo in itertools.product(prefixes(), aliases(), verbs_a(), followers()):
        b = B()
        pf(b)
        al(b)
        if vb(b) is False:
            continue
        if fo(b) is False:
            continue
        c = {"tables": tables(), "pipe": b.pipe()}
        out.append(c)
    return out


# ----------------------------------------------------------------------------------------- family D
def family_slices():
    """chains of slice_head, with and without an arrange in front"""
    out = []
    vals_n, vals_k = (0, 1, 2, 5, 20), (0, 1, 3, 6)
    for n1, k1, n2, k2 in itertools.product(vals_n, vals_k, vals_n, vals_k):
        b = B()
        b.add(["arrange", [o(C("id"))]], ["slice_head", n1, k1], ["slice_head", n2, k2])
        out.append({"tables": tables(), "pipe": b.pipe()})
    for n1, k1, n2, k2, n3, k3 in itertools.product((1, 4), (0, 2), (2, 5), (0, 3), (1, 3), (0, 1)):
        b = B()
        b.add(["arrange", [o(C("a"), True, False), o(C("id"))]], ["slice_head", n1, k1], ["mutate", [["y", fn("add", C("a"), lit(1))]]],
              ["slice_head", n2, k2], ["slice_head", n3, k3])
        out.append({"tables": tables(), "pipe": b.pipe()})
    return out


def pick(cases, n, seed):
    """a deterministic sample of n cases (stride through the list, offset by the seed)"""
    if n >= len(cases):
        return cases
    step = len(cases) / n
    off = seed % max(1, int(step))
    return [cases[min(len(cases) - 1, int(off + i * step))] for i in range(n)]


# ----------------------------------------------------------------------------------------- family B (joins)
def family_joins():
    def lp_plain(b): pass
    def lp_const(b): b.add(["mutate", [["k7", lit(7)]]])
    def lp_const_alias(b): b.add(["mutate", [["k7", lit(7)]]], ["alias", True])
    def lp_computed(b): b.add(["mutate", [["y", fn("add", C("a"), lit(1))]]])
    def lp_drop_s(b): b.add(["drop", [C("s")]])
    def lp_select(b): b.add(["select", [C("id"), C("a"), C("g")]])
    def lp_filtered(b): b.add(["filter", [fn("greater_than", C("id"), lit(1))]])
    def lp_renamed(b): b.add(["rename", [["b", "c"]]])
    def lp_overwrite(b): b.add(["mutate", [["g", fn("add", C("g"), lit(1))]]])
    lefts = [lp_plain, lp_const, lp_const_alias, lp_computed, lp_drop_s, lp_select, lp_filtered, lp_renamed, lp_overwrite]

    def rp_plain(b): pass
    def rp_const(b): b.add(["mutate", [["r7", lit(-7)]]])
    def rp_const_alias(b): b.add(["mutate", [["r7", lit(-7)]]], ["alias", True])
    def rp_computed(b): b.add(["mutate", [["z", fn("coalesce", C("c"), lit(0))]]])
    def rp_drop_s(b): b.add(["drop", [C("s")]])
    def rp_select(b): b.add(["select", [C("id"), C("c")]])
    def rp_filtered(b): b.add(["filter", [fn("is_not_null", C("c"))]])
    rights = [rp_plain, rp_const, rp_const_alias, rp_computed, rp_drop_s, rp_select, rp_filtered]

    hows = ["inner", "left", "full", "cross"]
    ons = ["eq", "eq_ineq"]

    def f_none(b, r): pass
    def f_right_hidden(b, r):           # a reference to a column of the right input that is not visible (or is suffixed)
        b.add(["mutate", [["hz", fn("add", ["col", "R@0", "id"], lit(0))]]])
    def f_right_s(b, r):
        b.add(["mutate", [["hs", ["col", "R@0", "s"]]]])
    def f_left_s(b, r):
        b.add(["mutate", [["ls", ["col", "P@0", "s"]]]])
    def f_count(b, r):
        b.add(["summarize", [["cnt", fn("count_star")], ["nc", fn("count", ["col", "R@0", "c"])]]])
    def f_filter(b, r):
        b.add(["filter", [fn("is_null", ["col", "R@0", "c"])]])
    fols = [f_none, f_right_hidden, f_right_s, f_left_s, f_count, f_filter]

    out = []
    for lp, rp, how, on, fo in itertools.product(lefts, rights, hows, ons, fols):
        if how == "cross" and on != "eq":
            continue
        if how == "full" and on == "eq_ineq":
            continue
        b, r = B("P", "t"), B("R", "u")
        lp(b)
        rp(r)
        onl = "cross" if how == "cross" else (
            [fn("equal", ["col", "P@0", "id"], ["col", "R@0", "id"])]
            + ([fn("less_equal", ["col", "P@0", "a"], ["col", "R@0", "c"])] if on == "eq_ineq" else []))
        b.add(["join", r.pipe(), onl, "inner" if how == "cross" else how, None])
        fo(b, r)
        out.append({"tables": tables(), "pipe": b.pipe()})
    return out


# ----------------------------------------------------------------------------------------- family C (unions)
def family_unions():
    ints = ("id", "a", "b", "g")

    def sel(*names):
        return ["select", [C(n) for n in names]]
    lefts = {
        "plain": [sel(*ints)],
        "perm": [sel("g", "id", "b", "a")],
        "hidden": [sel("id", "a", "b", "g")],
        "computed": [sel(*ints), ["mutate", [["a", fn("add", C("a"), lit(10))]]]],
        "filtered": [sel(*ints), ["filter", [fn("greater_than", C("id"), lit(3))]]],
        # operands that are compiled as a subquery (alias after a slice / a window column)
        "sliced_alias": [sel(*ints), ["arrange", [o(C("id"))]], ["slice_head", 6, 0], ["alias", True]],
        "window_alias": [["mutate", [["w", fn("sum", C("a"), partition_by=[C("g")])]]], sel(*ints), ["alias", True]],
    }
    rights = {
        "plain": [sel(*ints)],
        "rot": [sel("a", "b", "g", "id")],                       # 3-cycle / rotation of the left order
        "swap": [sel("a", "id", "b", "g")],
        "rename_onto_hidden": [sel("id", "a", "g", "p"), ["drop", [C("p")]], ["rename", [["a", "b"]]], ["mutate", [["a", C("g")]]]],
        "hidden_same_name": [["mutate", [["b2", C("b")]]], sel("id", "a", "b2", "g"), ["rename", [["b2", "b"]]]],
        "computed": [sel(*ints), ["mutate", [["g", fn("mul", C("g"), lit(-1))]]]],
        "overwrite_then_perm": [["mutate", [["b", fn("add", C("id"), lit(100))]]], sel("b", "g", "a", "id")],
        "empty": [sel(*ints), ["filter", [fn("less_than", C("id"), lit(0))]]],
        "sliced_alias": [sel(*ints), ["arrange", [o(C("id"), True)]], ["slice_head", 5, 1], ["alias", True]],
    }
    fols = {
        "none": [],
        "filter": [["filter", [fn("greater_than", C("b"), lit(0))]]],
        "mutate": [["mutate", [["m", fn("add", C("a"), C("b"))]]]],
        "arrange": [["arrange", [o(C("id")), o(C("a")), o(C("b")), o(C("g"))]]],
        "summarize": [["summarize", [["n", fn("count_star")], ["sb", fn("sum", C("b"))]]]],
        # fewer columns are read after the union than it has: duplicates must still be decided on all of them
        "select_subset": [["select", [C("g"), C("a")]]],
        "group_summ": [["group_by", [C("g")], False], ["summarize", [["n", fn("count_star")]]]],
    }
    out = []
    for (ln, ls), (rn, rs), dis, (fnm, fs) in itertools.product(lefts.items(), rights.items(), (False, True), fols.items()):
        b = B("P", "t")
        b.add(*ls)
        b.add(["union", {"id": "R", "src": "t", "steps": list(rs)}, dis])
        b.add(*fs)
        out.append({"tables": tables(), "pipe": b.pipe()})
    return out


# ----------------------------------------------------------------------------------------- family E (grouping metadata)
def family_grouping():
    gseqs = [
        [["group_by", [C("g")], False]],
        [["group_by", [C("g"), C("p")], False]],
        [["group_by", [C("p"), C("g")], False]],
        [["group_by", [C("g")], False], ["group_by", [C("p")], True]],
        [["group_by", [C("p")], False], ["group_by", [C("g")], True]],
        [["group_by", [C("g")], False], ["group_by", [C("p")], True], ["group_by", [C("s")], True]],
        [["group_by", [C("g")], False], ["group_by", [C("s")], False]],
        [["group_by", [C("g")], False], ["ungroup"], ["group_by", [C("p")], False]],
        [["group_by", [C("s")], False], ["select", [C("p"), C("s"), C("g"), C("a"), C("id")]], ["group_by", [C("g")], True]],
    ]
    mids = [[], [["mutate", [["y", fn("add", C("a"), lit(1))]]]], [["filter", [fn("is_not_null", C("a"))]]],
            [["rename", [["a", "aa"]]], ["rename", [["aa", "a"]]]]]
    summ = [
        ["summarize", [["sm", fn("sum", C("a"))]]],
        ["summarize", [["sm", fn("sum", C("a"))], ["cnt", fn("count_star")]]],
        ["summarize", [["b", fn("max", C("a"))]]],                         # takes the name of a non-grouping column
        ["mutate", [["sm", fn("sum", C("a"))]]],                           # window under the accumulated grouping
    ]
    fols = [[], [["mutate", [["q", fn("add", C("sm") if True else C("b"), lit(1))]]]], [["ungroup"]]]
    out = []
    for gs, md, sm, fo in itertools.product(gseqs, mids, summ, fols):
        b = B()
        b.add(*gs)
        b.add(*md)
        b.add(sm)
        names = [d[0] for d in sm[1]]
        if fo and fo[0][0] == "mutate":
            if "sm" not in names:
                continue
        b.add(*fo)
        out.append({"tables": tables(), "pipe": b.pipe()})
    return out


# ----------------------------------------------------------------------------------------- family N (invented names)
def family_names():
    """shapes in which a generated subquery must carry two columns of the same user-visible name: a hidden column
    (overwritten, swapped by rename, or the right key of a join) read again through its old reference above an
    alias(keep_col_refs=True) + subquery, next to the visible column that now has its name"""
    def dup_overwrite_src(b):
        old = b.here("a")
        b.add(["mutate", [["a", fn("mul", C("a"), lit(10))]]])
        return old, "a"

    def dup_overwrite_computed(b):
        b.add(["mutate", [["w", fn("add", C("a"), lit(1))]]])
        old = b.here("w")
        b.add(["mutate", [["w", fn("sub", C("b"), lit(1))]]])
        return old, "w"

    def dup_swap(b):
        old = b.here("a")
        b.add(["rename", [["a", "b"], ["b", "a"]]])       # old is now called b; C.a is the former b
        return old, "a"

    def dup_twice(b):
        old = b.here("a")
        b.add(["mutate", [["a", fn("add", C("a"), lit(1))]]], ["mutate", [["a", fn("add", C("a"), lit(1))]]])
        return old, "a"

    def dup_twice_all(b):
        # three columns called a are needed above the subquery: both hidden ones are read again
        old1 = b.here("a")
        b.add(["mutate", [["a", fn("add", C("a"), lit(10))]]])
        old2 = b.here("a")
        b.add(["mutate", [["a", fn("add", C("a"), lit(100))]]])
        return fn("add", old1, old2), "a"

    def force_slice(b):
        b.add(["arrange", [o(C("id"))]], ["slice_head", 6, 0])

    def force_window(b):
        b.add(["mutate", [["rk", fn("row_number", arrange=[o(C("id"))])]]])

    def force_summ(b):
        return None          # placeholder: summarize would drop the hidden column

    out = []
    for dup, force, reader in itertools.product((dup_overwrite_src, dup_overwrite_computed, dup_swap, dup_twice, dup_twice_all),
                                                (force_slice, force_window), ("verb", "mutate", "summarize", "arrange")):
        b = B()
        old, new = dup(b)
        force(b)
        b.add(["alias", True])
        both = fn("less_than", old, C(new))
        if reader == "verb":
            b.add(["filter", [fn("bool_or", both, fn("is_null", C(new)))]])
        else:
            b.add(["filter", [fn("is_not_null", C("id"))]])          # needs the subquery; reads neither
            if reader == "mutate":
                b.add(["mutate", [["d", fn("sub", old, C(new))]]])
            elif reader == "summarize":
                b.add(["summarize", [["lo", fn("min", old)], ["hi", fn("max", C(new))]]])
            else:
                b.add(["arrange", [o(old, True, True), o(C(new), False, True), o(C("id"))]])
        out.append({"tables": tables(), "pipe": b.pipe()})
    # the hidden right key of a join, read again above the subquery
    for how, reader in itertools.product(("inner", "left"), ("verb", "mutate")):
        b = B()
        r = B("R", "u")
        r.add(["select", [["col", "R@0", "a"], ["col", "R@0", "c"]]])
        b.add(["join", r.pipe(), [fn("equal", ["col", "P@0", "a"], ["col", "R@0", "a"])], how, None])
        b.add(["mutate", [["rk", fn("row_number", arrange=[o(C("id")), o(C("c"))])]]], ["select", [C(n) for n in ("id", "a", "c", "rk")]],
              ["alias", True])
        both = fn("greater_equal", fn("add", C("rk"), ["col", "R@0", "a"]), ["col", "P@0", "a"])
        if reader == "verb":
            b.add(["filter", [fn("bool_or", both, fn("is_null", C("a")))]])
        else:
            b.add(["filter", [fn("greater_than", C("rk"), lit(0))]], ["mutate", [["d", fn("sub", ["col", "R@0", "a"], C("a"))]]])
        out.append({"tables": tables(), "pipe": b.pipe()})
    return out


# ----------------------------------------------------------------------------------------- family S (automatic join suffixes)
def family_suffix():
    """joins without a user suffix in which a column of the left table already carries the name that the automatic
    suffix would give to a column of the right table (`c_u`, `s_u`, `c_u_1`, `id_u`): the counter of the suffix search
    has to move on, for clashing and for non-clashing right columns alike, and every column stays visible under its
    own name"""
    lefts = {
        "c_u": [["rename", [["b", "c_u"]]]],                                  # right c does not clash by itself
        "c_u+c_u_1": [["rename", [["b", "c_u"], ["p", "c_u_1"]]]],
        "s_u": [["rename", [["b", "s_u"]]]],                                  # right s clashes and its suffixed name too
        "id_u": [["rename", [["b", "id_u"]]]],
        "mutated c_u": [["mutate", [["c_u", fn("add", C("b"), lit(1))]]]],
        "a_u hidden": [["mutate", [["a_u", lit(1)]]], ["drop", [C("a_u")]]],  # a hidden left column has the name: no clash
    }
    out = []
    for (ln, lsteps), how, on, fo in itertools.product(lefts.items(), ("inner", "left", "full"), ("id", "a"),
                                                       ("none", "right_c", "select", "summarize")):
        b, r = B("P", "t"), B("R", "u")
        b.add(*[list(s) for s in lsteps])
        b.add(["join", r.pipe(), [fn("equal", ["col", "P@0", on], ["col", "R@0", on])], how, None])
        if fo == "right_c":
            b.add(["mutate", [["rc", fn("coalesce", ["col", "R@0", "c"], lit(-1))]]])
        elif fo == "select":
            b.add(["select", [["col", "R@0", "c"], ["col", "P@0", "id"], ["col", "R@0", "s"]]])
        elif fo == "summarize":
            b.add(["summarize", [["n", fn("count_star")], ["mc", fn("max", ["col", "R@0", "c"])], ["ms", fn("min", ["col", "P@0", "a"])]]])
        out.append({"tables": tables(), "pipe": b.pipe()})
    return out
