"""Driver shared by the pipeline-level properties (C01, C02, C04-C09, C11, C15, C16, ...):
corpus -> generated cases -> observation on Polars and SQLite -> reference semantics in Coq (L1)
-> classification -> shrinking -> known-finding filter -> probes -> coverage."""
from __future__ import annotations

import collections
import copy
import hashlib
import json
from pathlib import Path

import common
import findings
import gen
import pipecheck
import ser
from common import VERIF

SQL_REFUSALS = {"SubqueryError", "NotSupportedError"}
DOCUMENTED_REJECTIONS = {"ColumnNotFoundError", "DataTypeError", "FunctionTypeError", "ValueError", "TypeError",
                         "SubqueryError", "NotSupportedError"}


def listed_findings(prop=None):
    fs = common.known_findings()
    return {f["id"]: f for f in fs if prop is None or prop in f.get("properties", [f["property"]])}


def case_key(case):
    return hashlib.sha1(json.dumps(case["pipe"], sort_keys=True).encode()).hexdigest()


def failure_of(obs_p, obs_s, verdicts, i):
    """Classify one case.  Returns a list of (backend, failure dict)."""
    out = []
    vp, vs = verdicts.get((i, "polars")), verdicts.get((i, "sqlite"))
    # --- verb-call exceptions
    if obs_p.exc is not None:
        if obs_p.exc not in DOCUMENTED_REJECTIONS or obs_p.exc in SQL_REFUSALS:
            out.append(("polars", {"kind": "exc", "exc": obs_p.exc, "msg": obs_p.exc_msg,
                                   "what": f"verb call on Polars raised {obs_p.exc}"}))
        if obs_s is not None and obs_s.exc != obs_p.exc and not (obs_s.exc == "SubqueryError"):
            out.append(("sqlite", {"kind": "exc_mismatch", "exc": obs_s.exc, "msg": obs_s.exc_msg,
                                   "what": f"verb call raises {obs_p.exc} on Polars but {obs_s.exc} on SQLite"}))
        return out
    # --- polars accepted
    if obs_p.export_exc is not None:
        out.append(("polars", {"kind": "export_exc", "exc": obs_p.export_exc, "msg": obs_p.export_exc_msg,
                               "what": f"accepted pipeline fails to export on Polars: {obs_p.export_exc}"}))
    elif obs_p.ser_error is not None:
        out.append(("polars", {"kind": "ser", "exc": "SerError", "msg": obs_p.ser_error,
                               "what": "serialiser cannot express the real AST (tie broken)"}))
    elif vp in (1, 2):
        out.append(("polars", {"kind": "names" if vp == 1 else "rows",
                               "what": "Polars result differs from the reference semantics"}))
    out.extend(metadata_failures("polars", obs_p))
    if obs_s is None:
        return out
    if obs_s.exc is not None:
        if obs_s.exc not in SQL_REFUSALS:
            out.append(("sqlite", {"kind": "exc", "exc": obs_s.exc, "msg": obs_s.exc_msg,
                                   "what": f"SQLite-backed verb call raised {obs_s.exc} where Polars accepts"}))
        return out
    if obs_s.export_exc is not None:
        if obs_s.export_exc not in SQL_REFUSALS:
            out.append(("sqlite", {"kind": "export_exc", "exc": obs_s.export_exc, "msg": obs_s.export_exc_msg,
                                   "what": f"accepted pipeline fails to export on SQLite: {obs_s.export_exc}"}))
    elif obs_s.ser_error is not None:
        out.append(("sqlite", {"kind": "ser", "exc": "SerError", "msg": obs_s.ser_error,
                               "what": "serialiser cannot express the real AST (tie broken)"}))
    elif vs in (1, 2):
        out.append(("sqlite", {"kind": "names" if vs == 1 else "rows",
                               "what": "SQLite result differs from the reference semantics"}))
    out.extend(metadata_failures("sqlite", obs_s))
    return out


def metadata_failures(b, o):
    """C11: every metadata accessor agrees with the exported frame (names, order, count)."""
    out = []
    if o.names is None or o.columns is None:
        return out
    if o.columns != o.names:
        out.append((b, {"kind": "metadata", "what": f"columns() {o.columns} differs from the exported column names {o.names}"}))
    m = o.meta or {}
    if "error" in m:
        out.append((b, {"kind": "metadata", "exc": "meta", "what": f"metadata accessor raised {m['error']}"}))
        return out
    if m:
        if m["iter"] != o.names:
            out.append((b, {"kind": "metadata", "what": f"iteration order {m['iter']} differs from the exported names {o.names}"}))
        elif m["len"] != len(o.names):
            out.append((b, {"kind": "metadata", "what": f"len(table) = {m['len']} but {len(o.names)} columns are exported"}))
        elif not m["contains"]:
            out.append((b, {"kind": "metadata", "what": "`name in table` is false for an exported column"}))
        elif m["dir"]:
            out.append((b, {"kind": "metadata", "what": f"dir(table) lacks exported columns {m['dir']}"}))
        elif m["from_ast"] != o.names:
            out.append((b, {"kind": "metadata", "what": f"metadata recomputed from the whole pipeline {m['from_ast']} differs from the exported names {o.names}"}))
    return out


def probe_extensions(case):
    """For every prefix of the main pipe: the prefix followed by a mutate that copies every column
    that is in scope there (visible or hidden, through the reference of the point where it was last
    visible) into a probe column.  Used to turn a broken L2 correspondence into a failing input: a
    wrongly accepted verb shows up as a changed value of some in-scope column."""
    import copy
    from pipes import Instantiator
    pid = case["pipe"]["id"]
    out = Instantiator(case, "polars", {}).run()
    res = []
    n = len(case["pipe"]["steps"])
    for k in range(1, n + 1):
        if f"{pid}@{k}" not in out.points:
            break
        cur = out.points[f"{pid}@{k}"]
        scope = set(cur._cache.cols.keys())
        refs, seen = [], set()
        for j in range(k, -1, -1):
            t = out.points.get(f"{pid}@{j}")
            if t is None:
                continue
            for name, uid in t._cache.name_to_uuid.items():
                if uid in scope and uid not in seen:
                    seen.add(uid)
                    refs.append(["col", f"{pid}@{j}", name])
        if not refs:
            continue
        c2 = copy.deepcopy(case)
        c2["pipe"]["steps"] = c2["pipe"]["steps"][:k] + [["mutate", [[f"probe_{i}", r] for i, r in enumerate(refs)]]]
        res.append(c2)
    return res


def search_failing_input(case, backend, ctx):
    """After a broken L2 correspondence: look for a concrete input on which the property fails."""
    try:
        exts = probe_extensions(case)
    except Exception:  # noqa: BLE001
        return None
    if not exts:
        return None
    obs = pipecheck.observe_all(exts)
    v = {}
    if ctx.build_ok:
        v, _ = pipecheck.eval_cases("search", exts, obs)
    for i, c in enumerate(exts):
        fs = [(b, f) for b, f in failure_of(obs[i]["polars"], obs[i].get("sqlite"), v, i)
              if not f["kind"].startswith("l2_")]
        if fs:
            return c, fs[0][0], fs[0][1], obs[i]
    return None


def shrink_rows(case, pred, budget=40):
    """grid tables: keep a single failing row if possible"""
    import copy
    best = case
    for name, t in case["tables"].items():
        rows = t["rows"]
        lo, hi = 0, len(rows)
        calls = 0
        while hi - lo > 1 and calls < budget:
            mid = (lo + hi) // 2
            for a, b in ((lo, mid), (mid, hi)):
                c2 = copy.deepcopy(best)
                c2["tables"][name]["rows"] = rows[a:b]
                calls += 1
                if pred(c2):
                    lo, hi = a, b
                    break
            else:
                break
        c2 = copy.deepcopy(best)
        c2["tables"][name]["rows"] = rows[lo:hi]
        if pred(c2):
            best = c2
    return best


def same_failure(case, backend, f, coq_ok=True):
    """Predicate for the shrinker: does `case` still fail on `backend` in the same way?"""
    def pred(c):
        obs = pipecheck.observe_all([c])
        v = {}
        if f["kind"] in ("names", "rows") and coq_ok:
            v, errs = pipecheck.eval_cases("shr", [c], obs)
            if errs:
                p_, s_ = obs[0].get("polars"), obs[0].get("sqlite")
                if p_ is not None and s_ is not None and p_.names is not None and s_.names is not None and \
                        not (p_.names == s_.names and sorted(map(repr, p_.rows)) == sorted(map(repr, s_.rows))):
                    v = {(0, "sqlite"): 2}
        fs = failure_of(obs[0]["polars"], obs[0].get("sqlite"), v, 0)
        return any(b == backend and g["kind"] == f["kind"] and g.get("exc") == f.get("exc") for b, g in fs)
    return pred


L2_FIELDS = {1: "name_to_uuid", 2: "partition_by", 3: "cols (name/dtype/ftype)", 4: "limit", 5: "group_by",
             6: "is_filtered", 9: "model could not type the pipeline"}


def run(ctx, res, prop, profile, n_quick=300, n_thorough=4000, probe_ids=(), extra_cases=(),
        max_steps=None, label=None, l2_steps=False):
    r_seed = ctx.seed
    n = n_quick if ctx.tier == "quick" else n_thorough
    listed = listed_findings()
    # ---- cases: replay / corpus first, then generated
    cases, origin = [], []
    if ctx.replay:
        rp = json.loads(Path(ctx.replay).read_text())
        if "case" in rp:
            cases.append(rp["case"])
            origin.append("replay")
        n = 0
    cdir = VERIF / "corpus" / prop
    if cdir.is_dir():
        for f in sorted(cdir.glob("*.json")):
            cases.append(json.loads(f.read_text())["case"])
            origin.append(f"corpus/{f.name}")
    for c in extra_cases:
        cases.append(c)
        origin.append("extra")
    g = gen.Gen(r_seed, profile)
    for i in range(n):
        cases.append(g.case(max_steps=max_steps))
        origin.append(f"gen:{r_seed}:{i}")
    # ---- observe + evaluate
    obs = pipecheck.observe_all(cases, l2_steps=l2_steps)
    verdicts, errors = ({}, [])
    l2 = {}
    # the model files may well be intact when only the property's own proof cone broke: try anyway
    verdicts, errors = pipecheck.eval_cases(prop.lower(), cases, obs)
    l2 = dict(pipecheck.L2)
    model_ok = not errors
    if not ctx.build_ok and errors:
        verdicts, errors, l2 = {}, [], {}
    if not model_ok:
        # no executable model: search for a failing input by comparing the two backends directly
        for i, o in enumerate(obs):
            p_, s_ = o.get("polars"), o.get("sqlite")
            if p_ is None or s_ is None or p_.names is None or s_.names is None:
                continue
            same = p_.names == s_.names and sorted(map(repr, p_.rows)) == sorted(map(repr, s_.rows))
            if not same:
                verdicts[(i, "sqlite")] = 2
    for e in errors:
        res.violations.append({"what": "correspondence cases did not evaluate in Coq", "found_input": False,
                               "payload": {"correspondence": f"{prop} L1", "error": e}})
    # ---- classify
    stats = collections.Counter()
    cand = []
    for i, o in enumerate(obs):
        op, os_ = o["polars"], o.get("sqlite")
        fs = failure_of(op, os_, verdicts, i)
        for b, ob in o.items():
            if ob.exc:
                stats[f"{b}:exc:{ob.exc}"] += 1
            elif ob.export_exc:
                stats[f"{b}:export_exc:{ob.export_exc}"] += 1
            elif ob.ser_error:
                stats[f"{b}:ser_error"] += 1
            else:
                v = verdicts.get((i, b))
                stats[f"{b}:{ {0: 'ok', 1: 'names', 2: 'rows', 3: 'out_of_domain', None: 'not_evaluated'}[v]}"] += 1
        for b, f in fs:
            cand.append((i, b, f))
        for b in o:
            cd, sd = l2.get((i, b), (0, 0))
            if cd:
                cand.append((i, b, {"kind": "l2_cache", "code": cd, "markers": o[b].n_markers,
                                    "what": f"L2: metadata model (Model/Cache.v) and real Cache differ in {L2_FIELDS.get(cd, cd)}"}))
                stats[f"{b}:l2_cache_mismatch"] += 1
            if sd:
                cand.append((i, b, {"kind": "l2_subquery",
                                    "what": "L2: Model/Cache.v requires_subquery and the real decision differ"}))
                stats[f"{b}:l2_subquery_mismatch"] += 1
    # ---- L3: the transcribed compile_ast against the real one (Query record, labels, scope) on every
    # single-source SQLite case; flat = the case satisfies the hypothesis of sql_compile_correct
    l3_items = [((i, "sqlite"), o["sqlite"].ast_coq, o["sqlite"].l3) for i, o in enumerate(obs)
                if o.get("sqlite") is not None and o["sqlite"].l3 is not None]
    l3_res, l3_err = ({}, [])
    if l3_items:
        import sqlcompile
        l3_res, l3_err = sqlcompile.evaluate(prop.lower(), l3_items)
        if not ctx.build_ok and l3_err:
            l3_res, l3_err = {}, []
        for e in l3_err:
            res.violations.append({"what": "L3 correspondence cases did not evaluate in Coq", "found_input": False,
                                   "payload": {"correspondence": f"{prop} L3 (Model/SqlCompile.v)", "error": e}})
        for (i, b), (dom, diff, fl) in l3_res.items():
            stats[f"sqlite:L3:{'not modelled' if not dom else 'differs' if diff else 'equal'}"] += 1
            if dom and fl:
                stats["sqlite:L3:satisfies flat_ok (compile-correctness theorem applies)"] += 1
            if diff:
                cand.append((i, b, {"kind": "l3", "fields": diff,
                                    "what": "L3: Model/SqlCompile.compile and the real SqlImpl.compile_ast differ in "
                                            + ", ".join(sqlcompile.FIELD.get(x, str(x)) for x in diff)}))
    # ---- L3 for Polars: the transcribed compile_ast (Model/PlCompile.v) against the real one
    pl_items = [((i, "polars"), ser.db_to_coq(cases[i]["tables"]), o["polars"].ast_coq, o["polars"].pl3)
                for i, o in enumerate(obs) if o.get("polars") is not None and o["polars"].pl3 is not None]
    pl_res, pl_err = ({}, [])
    if pl_items:
        import sqlcompile
        pl_res, pl_err = sqlcompile.evaluate_polars(prop.lower(), pl_items)
        if not ctx.build_ok and pl_err:
            pl_res, pl_err = {}, []
        for e in pl_err:
            res.violations.append({"what": "L3 (Polars) correspondence cases did not evaluate in Coq", "found_input": False,
                                   "payload": {"correspondence": f"{prop} L3 (Model/PlCompile.v)", "error": e}})
        for (i, b), (dom, diff, fl) in pl_res.items():
            stats[f"polars:L3:{'not modelled' if not dom else 'differs' if diff else 'equal'}"] += 1
            if dom and fl:
                stats["polars:L3:satisfies pflat_ok (compile-correctness theorem applies)"] += 1
            if diff:
                cand.append((i, b, {"kind": "l3", "fields": diff,
                                    "what": "L3: Model/PlCompile.pl_compile and the real Polars compile_ast differ in "
                                            + ", ".join(sqlcompile.PL_FIELD.get(x, str(x)) for x in diff)}))
    # ---- shrink, match known findings, report
    hit = collections.Counter()
    reported = 0
    seen_sig = set()
    for i, b, f in cand:
        if reported >= 4:
            break
        sig = (b, f["kind"], f.get("exc"))
        small = cases[i]
        fid = findings.match(small, b, f, listed)
        if fid is not None:
            hit[fid] += 1
            continue
        if sig in seen_sig:
            continue
        if f["kind"].startswith("l2_") or f["kind"] == "l3":
            seen_sig.add(sig)
            found = search_failing_input(cases[i], b, ctx)
            if found is not None and findings.match(found[0], found[1], found[2], listed) is None:
                fc, fb, ff, fo = found
                payload = {"case": fc, "backend": fb, "failure": ff, "origin": origin[i] + " (probe extension after L2 mismatch)",
                           "broken_correspondence": f["what"], "observed": {k: v.to_json() for k, v in fo.items()}}
                if ctx.build_ok and fo[fb].ast_coq:
                    payload["reference"] = pipecheck.expected_frame_text(fc, fo[fb])
                res.violations.append({"what": f"{ff['what']} (found after: {f['what']}) [{origin[i]}]",
                                       "found_input": True, "payload": payload})
                reported += 1
                continue
            res.violations.append({"what": f"{f['what']} [{origin[i]}]", "found_input": False,
                                   "payload": {"correspondence": f["what"], "case": cases[i], "backend": b,
                                               "origin": origin[i], "failure": f,
                                               "theorems_resting_on_it": "Properties/C01.v sql_compile_correct (compile model)"
                                               if f["kind"] == "l3" else "Properties/C08.v, C09.v, C11.v (Cache model)"}})
            reported += 1
            continue
        try:
            base = same_failure(cases[i], b, f, ctx.build_ok)
            # never shrink into the region of a listed finding (that would change the subject)
            small = pipecheck.shrink(cases[i], lambda c: findings.match(c, b, f, listed) is None and base(c),
                                     budget=40)
            if "grid" in [t.get("shape") for t in cases[i]["tables"].values()]:
                small = shrink_rows(small, base)
        except Exception:  # noqa: BLE001
            small = cases[i]
        if sig in seen_sig:
            continue
        seen_sig.add(sig)
        so = pipecheck.observe_all([small])[0]
        if b not in so:
            continue
        payload = {"case": small, "backend": b, "failure": f, "origin": origin[i],
                   "observed": {k: v.to_json() for k, v in so.items()}}
        if f["kind"] in ("rows", "names") and ctx.build_ok and so[b].ast_coq:
            payload["reference"] = pipecheck.expected_frame_text(small, so[b])
        res.violations.append({"what": f"{f['what']} [{origin[i]}]", "found_input": True, "payload": payload})
        reported += 1
    # ---- dedicated probes of the findings this property owns
    for fid in probe_ids:
        if fid not in listed or fid not in findings.PROBES:
            continue
        pc = findings.PROBES[fid]
        po = pipecheck.observe_all([pc])
        pv = {}
        if ctx.build_ok:
            pv, _ = pipecheck.eval_cases(f"{prop.lower()}_probe_{fid}", [pc], po)
        pfs = failure_of(po[0]["polars"], po[0].get("sqlite"), pv, 0)
        if any(findings.MATCHERS[fid](pc, b, f) for b, f in pfs):
            hit[fid] += 1
    for fid in sorted(hit):
        res.known.append(f"{fid} {listed[fid]['what']}")
    # ---- coverage
    both_ok = sum(1 for i in range(len(cases)) if verdicts.get((i, "polars")) == 0 and verdicts.get((i, "sqlite")) == 0)
    distinct = len({case_key(c) for i, c in enumerate(cases)
                    if len(c["pipe"]["steps"]) >= 2 and verdicts.get((i, "polars")) == 0})
    verbs = collections.Counter(st[0] for c in cases for p in findings.walk_pipes(c["pipe"]) for st in p["steps"])
    opsused = collections.Counter(e[1] for c in cases for _, _, e in findings.fns(c))
    shapes = collections.Counter(t.get("shape", "?") for c in cases for t in c["tables"].values())
    lens = collections.Counter(min(len(c["pipe"]["steps"]), 9) for c in cases)
    cov = res.coverage
    res.traces += sum(1 for v in verdicts.values() if v == 0)
    cov["cases_satisfying_wf_hypothesis"] = cov.get("cases_satisfying_wf_hypothesis", 0) + sum(pipecheck.WF.values())
    cov["l3_polars_model_equal"] = cov.get("l3_polars_model_equal", 0) + sum(1 for v in pl_res.values() if v[0] and not v[1])
    cov["l3_polars_cases_satisfying_pflat_ok"] = cov.get("l3_polars_cases_satisfying_pflat_ok", 0) + sum(1 for v in pl_res.values() if v[0] and v[2])
    cov["l3_compile_model_equal"] = cov.get("l3_compile_model_equal", 0) + sum(1 for v in l3_res.values() if v[0] and not v[1])
    cov["l3_cases_satisfying_flat_ok"] = cov.get("l3_cases_satisfying_flat_ok", 0) + sum(1 for v in l3_res.values() if v[0] and v[2])
    cov["l2_cache_traces_equal"] = cov.get("l2_cache_traces_equal", 0) + sum(1 for k, v in l2.items() if v[0] == 0 and verdicts.get(k) != 7)
    if l2_steps:
        cov["l2_subquery_decisions_compared"] = cov.get("l2_subquery_decisions_compared", 0) + sum(
            len(ob.steps_coq) for o in obs for ob in o.values())
    cov["evaluations"] = cov.get("evaluations", 0) + len(cases) * 2
    cov["distinct_nontrivial"] = cov.get("distinct_nontrivial", 0) + distinct
    cov.setdefault("rule", "typed random pipelines (harness/gen.py) instantiated on a Polars-backed and a "
                   "SQLite-backed table; distinct_nontrivial = distinct pipelines (by description hash) "
                   "with >= 2 verbs whose Polars result equals the Coq reference")
    cov.setdefault("runs", []).append({
        "label": label or prop, "cases": len(cases), "both_backends_equal_reference": both_ok,
        "outcomes": dict(stats), "verb_histogram": dict(verbs), "operator_histogram": dict(opsused),
        "table_shapes": dict(shapes), "pipeline_length_histogram": dict(lens),
        "discarded_out_of_domain": stats.get("polars:out_of_domain", 0) + stats.get("sqlite:out_of_domain", 0),
        "known_finding_hits": dict(hit),
    })
    if cases:
        cov.setdefault("samples", []).extend(
            [{"pipe": c["pipe"], "tables": {k: {"cols": t["cols"], "rows": t["rows"][:3]} for k, t in c["tables"].items()}}
             for c in cases[-2:]])
    return cases, obs, verdicts
