"""Shared machinery of the pipeline-level properties: run cases on the implementation, evaluate the
reference semantics (Model/RefSem.v) on the real resolved AST inside Coq, compare (L1)."""
from __future__ import annotations

import json
import re
import subprocess
import time
from concurrent.futures import ThreadPoolExecutor

import common
import ser
from common import CASES
from pipes import Instantiator, export_frame

BACKENDS = ("polars", "sqlite")

CASE_HEADER = """From Coq Require Import List String Ascii NArith ZArith Bool PrimFloat.
From PDT Require Import Model.Dtype Model.Value Model.Ops Model.Expr Model.RefSem.
From PDTGen Require Import Catalogue.
Import ListNotations.
Open Scope string_scope.
Definition code (v : verdict) : nat :=
  match v with VOk => 0 | VNames => 1 | VRows => 2 | VOutOfDomain => 3 end.
"""


class Obs:
    """Observation of one case on one backend."""
    __slots__ = ("backend", "exc", "exc_msg", "exc_at", "columns", "names", "rows", "dtypes",
                 "ast_coq", "export_exc", "export_exc_msg", "ser_error", "n_markers", "meta")

    def __init__(self, backend):
        self.backend = backend
        self.exc = self.exc_msg = self.exc_at = None
        self.columns = self.names = self.rows = self.dtypes = None
        self.ast_coq = None
        self.export_exc = self.export_exc_msg = None
        self.ser_error = None
        self.n_markers = 0
        self.meta = None

    def to_json(self):
        return {k: getattr(self, k) for k in self.__slots__ if k != "ast_coq"}


def observe(case, backend) -> Obs:
    from pydiverse.transform import extended as X
    o = Obs(backend)
    inst = Instantiator(case, backend, {})
    out = inst.run()
    if out.exc is not None:
        o.exc, o.exc_msg, o.exc_at = out.exc, out.exc_msg, list(out.exc_at)
        return o
    tbl = out.table
    try:
        o.columns = list(tbl >> X.columns())
    except (KeyboardInterrupt, SystemExit):
        raise
    except BaseException as ex:  # noqa: BLE001
        o.columns = None
        o.export_exc, o.export_exc_msg = type(ex).__name__, "columns(): " + str(ex)[:200]
    try:
        from pydiverse.transform._internal.pipe.cache import Cache
        o.meta = {
            "iter": [c.name for c in tbl],
            "len": len(tbl),
            "contains": all((n in tbl) for n in (o.columns or [])),
            "dir": [n for n in (o.columns or []) if n.isidentifier() and n not in dir(tbl)],
            "from_ast": list(Cache.from_ast(tbl._ast).name_to_uuid.keys()),
            "static_dtypes": [str(c.dtype()) for c in tbl],
        }
    except (KeyboardInterrupt, SystemExit):
        raise
    except BaseException as ex:  # noqa: BLE001
        o.meta = {"error": f"{type(ex).__name__}: {str(ex)[:200]}"}
    try:
        o.names, o.rows, o.dtypes = export_frame(tbl)
    except (KeyboardInterrupt, SystemExit):
        raise
    except BaseException as ex:  # noqa: BLE001
        o.export_exc, o.export_exc_msg = type(ex).__name__, str(ex)[:300]
    try:
        um = ser.UidMap()
        o.ast_coq = ser.ast_to_coq(tbl._ast, um, out.sources)
        o.n_markers = o.ast_coq.count("SubqueryMarker")
    except (ser.SerError, Exception) as ex:  # noqa: BLE001
        o.ser_error = f"{type(ex).__name__}: {ex}"
    return o


def observe_all(cases, backends=BACKENDS):
    return [{b: observe(c, b) for b in backends} for c in cases]


def case_block(i, case, obs: dict, backends=BACKENDS) -> tuple[str, list]:
    """Gallina text for one case and the list of (slot, backend) it evaluates."""
    txt = [f"Definition db{i} : db := {ser.db_to_coq(case['tables'])}."]
    slots = []
    for bi, b in enumerate(backends):
        o = obs[b]
        if o.ast_coq is None or o.names is None:
            continue
        txt.append(f"Definition ast{i}_{bi} : ast := {o.ast_coq}.")
        txt.append(f"Definition obs{i}_{bi} : frame := {ser.frame_to_coq(o.names, o.rows)}.")
        slots.append((i * len(backends) + bi, i, bi))
    return "\n".join(txt) + "\n", slots


def eval_cases(name, cases, observations, backends=BACKENDS, shard=150):
    """Returns {(case index, backend): verdict code} for every case that could be evaluated, plus a
    list of coqc errors."""
    CASES.mkdir(parents=True, exist_ok=True)
    files = []
    for s0 in range(0, len(cases), shard):
        txt = [CASE_HEADER]
        entries = []
        for i in range(s0, min(s0 + shard, len(cases))):
            block, slots = case_block(i, cases[i], observations[i], backends)
            if not slots:
                continue
            txt.append(block)
            for slot, ci, bi in slots:
                entries.append(f"({slot}, code (check_case db{ci} ast{ci}_{bi} false obs{ci}_{bi}))")
        if not entries:
            continue
        txt.append("Eval vm_compute in [" + ";\n ".join(entries) + "]%nat.\n")
        f = CASES / f"{name}_{s0 // shard}.v"
        f.write_text("\n".join(txt))
        files.append(f)

    def go(f):
        return subprocess.run(["bash", "-c", f"ulimit -s unlimited; timeout 900 coqc {' '.join(common.COQ_ARGS)} {f}"],
                              capture_output=True, text=True, cwd=common.COQ)
    verdicts, errors = {}, []
    with ThreadPoolExecutor(common.NPROC) as ex:
        for f, p in zip(files, ex.map(go, files)):
            if p.returncode != 0:
                errors.append(f"{f.name}: {(p.stderr or p.stdout)[-1500:]}")
                continue
            flat = re.sub(r"%nat|\s", "", p.stdout)
            for m in re.finditer(r"\((\d+),(\d+)\)", flat):
                slot, code = int(m.group(1)), int(m.group(2))
                verdicts[(slot // len(backends), backends[slot % len(backends)])] = code
    return verdicts, errors


def expected_frame_text(case, obs: Obs) -> str:
    """Ask Coq for the reference frame of one case (for replay files / debugging)."""
    CASES.mkdir(parents=True, exist_ok=True)
    f = CASES / f"dbg_{abs(hash(obs.ast_coq)) % 10**8}.v"
    f.write_text(CASE_HEADER + f"Definition d : db := {ser.db_to_coq(case['tables'])}.\n"
                 f"Definition a : ast := {obs.ast_coq}.\n"
                 "Eval vm_compute in (let s := sem_ref d a in (bad s, ord_defined s, export_ref s)).\n")
    p = common.coqc_file(f, timeout=120)
    f.unlink(missing_ok=True)
    return (p.stdout + p.stderr)[-3000:]


def shrink(case, still_fails, budget=150):
    """Delta-debugging on the description: drop steps, drop definitions / predicates / keys, drop rows,
    replace expressions by sub-expressions.  [still_fails(case) -> bool] must be deterministic."""
    import copy
    best = copy.deepcopy(case)
    calls = [0]

    def ok(c):
        calls[0] += 1
        if calls[0] > budget:
            return False
        try:
            return bool(still_fails(c))
        except Exception:  # noqa: BLE001
            return False

    def pipes(c):
        out = []

        def walk(p):
            out.append(p)
            for st in p["steps"]:
                if st[0] in ("join", "union"):
                    walk(st[1])
        walk(c["pipe"])
        return out

    progress = True
    while progress and calls[0] <= budget:
        progress = False
        # drop steps (from the end first)
        for pi in range(len(pipes(best))):
            n = len(pipes(best)[pi]["steps"])
            for k in reversed(range(n)):
                c2 = copy.deepcopy(best)
                del pipes(c2)[pi]["steps"][k]
                if ok(c2):
                    best, progress = c2, True
                    break
            if progress:
                break
        if progress:
            continue
        # drop definitions / predicates / keys inside steps
        for pi in range(len(pipes(best))):
            for k, st in enumerate(pipes(best)[pi]["steps"]):
                if st[0] in ("mutate", "summarize", "filter", "arrange", "select", "drop", "group_by", "rename") \
                        and isinstance(st[1], list) and len(st[1]) > 1:
                    for j in range(len(st[1])):
                        c2 = copy.deepcopy(best)
                        del pipes(c2)[pi]["steps"][k][1][j]
                        if ok(c2):
                            best, progress = c2, True
                            break
                if progress:
                    break
            if progress:
                break
        if progress:
            continue
        # drop rows
        for name, t in best["tables"].items():
            rows = t["rows"]
            if len(rows) > 1:
                for half in (rows[: len(rows) // 2], rows[len(rows) // 2:]):
                    c2 = copy.deepcopy(best)
                    c2["tables"][name]["rows"] = half
                    if ok(c2):
                        best, progress = c2, True
                        break
            if progress:
                break
    return best
