"""Shared machinery of the pipeline-level properties: run cases on the implementation, evaluate the
reference semantics (Model/RefSem.v) on the real resolved AST inside Coq, compare (L1)."""
from __future__ import annotations

import json
import re
import subprocess
import time
from concurrent.futures import ThreadPoolExecutor

import common
import ser
from common import CASES
from pipes import Instantiator, export_frame

BACKENDS = ("polars", "sqlite")

CASE_HEADER = """From Coq Require Import List String Ascii NArith ZArith Bool PrimFloat.
From PDT Require Import Model.Dtype Model.Value Model.Ops Model.Expr Model.RefSem Model.Typing Model.Cache Proofs.CacheLemmas.
From PDTGen Require Import Catalogue.
Import ListNotations.
Open Scope string_scope.
Definition code (v : verdict) : nat :=
  match v with VOk => 0 | VNames => 1 | VRows => 2 | VOutOfDomain => 3 end.
Definition child_of (a : ast) : option ast :=
  match a with
  | Select c _ | Rename c _ | Mutate c _ | Filter c _ | Arrange c _ | SliceHead c _ _ | GroupBy c _ _
  | Ungroup c | Summarize c _ | Alias c _ | SubqueryMarker c => Some c
  | _ => None
  end.
(* does the model's requires_subquery agree with the real decision for verb [v] on child [c]? *)
Definition step_agrees (is_polars : bool) (sch : schema) (c v : ast) (real : bool) : bool :=
  match cache_of_ast sch c with
  | TOk cc => Bool.eqb (match requires_subquery is_polars cc v false with Some _ => true | None => false end) real
  | TErr _ => false
  end.
"""
STEP_PATTERN = "(Select c _ | Rename c _ | Mutate c _ | Filter c _ | Arrange c _ | SliceHead c _ _ | GroupBy c _ _ | Ungroup c | Summarize c _ | Alias c _) as v"


WF = {}      # (case index, backend) -> 1 when the AST satisfies Proofs/CacheLemmas.wf
L2 = {}      # (case index, backend) -> (cache_diff code, subquery-decision mismatch) of the last eval_cases


class Obs:
    """Observation of one case on one backend."""
    __slots__ = ("backend", "exc", "exc_msg", "exc_at", "columns", "names", "rows", "dtypes",
                 "ast_coq", "export_exc", "export_exc_msg", "ser_error", "n_markers", "meta",
                 "cache_coq", "schema_coq", "steps_coq", "l3", "l3_error", "pl3")

    def __init__(self, backend):
        self.backend = backend
        self.exc = self.exc_msg = self.exc_at = None
        self.columns = self.names = self.rows = self.dtypes = None
        self.ast_coq = None
        self.export_exc = self.export_exc_msg = None
        self.ser_error = None
        self.n_markers = 0
        self.meta = None
        self.cache_coq = self.schema_coq = None
        self.steps_coq = []      # [(prev ast, verb node on prev ast, real decision)] for the subquery L2
        self.l3 = None           # (query, labels, scope) of the real SqlImpl.compile_ast as Gallina (sqlcompile.py)
        self.l3_error = None
        self.pl3 = None          # (select, partition_by, name_in_df, schema) of the real Polars compile_ast

    def to_json(self):
        return {k: getattr(self, k) for k in self.__slots__
                if k not in ("ast_coq", "cache_coq", "schema_coq", "steps_coq", "l3", "pl3")}


def observe(case, backend, l2_steps=False) -> Obs:
    from pydiverse.transform import extended as X
    o = Obs(backend)
    if l2_steps:
        import pipes
        pipes.patch_requires_subquery()
    inst = Instantiator(case, backend, {})
    out = inst.run()
    if out.exc is not None:
        o.exc, o.exc_msg, o.exc_at = out.exc, out.exc_msg, list(out.exc_at)
        if l2_steps and out.exc == "SubqueryError":
            try:
                o.steps_coq = step_decisions(case, out)
            except Exception as ex:  # noqa: BLE001
                o.ser_error = f"steps: {type(ex).__name__}: {ex}"
        return o
    tbl = out.table
    try:
        o.columns = list(tbl >> X.columns())
    except (KeyboardInterrupt, SystemExit):
        raise
    except BaseException as ex:  # noqa: BLE001
        o.columns = None
        o.export_exc, o.export_exc_msg = type(ex).__name__, "columns(): " + str(ex)[:200]
    try:
        from pydiverse.transform._internal.pipe.cache import Cache
        o.meta = {
            "iter": [c.name for c in tbl],
            "len": len(tbl),
            "contains": all((n in tbl) for n in (o.columns or [])),
            "dir": [n for n in (o.columns or []) if n.isidentifier() and n not in dir(tbl)],
            "from_ast": list(Cache.from_ast(tbl._ast).name_to_uuid.keys()),
            "static_dtypes": [str(c.dtype()) for c in tbl],
        }
    except (KeyboardInterrupt, SystemExit):
        raise
    except BaseException as ex:  # noqa: BLE001
        o.meta = {"error": f"{type(ex).__name__}: {str(ex)[:200]}"}
    try:
        o.names, o.rows, o.dtypes = export_frame(tbl)
    except (KeyboardInterrupt, SystemExit):
        raise
    except BaseException as ex:  # noqa: BLE001
        o.export_exc, o.export_exc_msg = type(ex).__name__, str(ex)[:300]
    try:
        um = ser.UidMap()
        o.ast_coq = ser.ast_to_coq(tbl._ast, um, out.sources)
        o.n_markers = o.ast_coq.count("SubqueryMarker")
        o.cache_coq = ser.cache_to_coq(tbl._cache, um)
        o.schema_coq = ser.schema_to_coq(ser.ast_sources(tbl._ast, []), um)
    except (ser.SerError, Exception) as ex:  # noqa: BLE001
        o.ser_error = f"{type(ex).__name__}: {ex}"
    if backend == "polars" and o.ast_coq is not None and o.ser_error is None:
        try:
            import sqlcompile
            o.pl3 = sqlcompile.real_polars(tbl, um)
        except (KeyboardInterrupt, SystemExit):
            raise
        except BaseException as ex:  # noqa: BLE001
            o.l3_error = f"{type(ex).__name__}: {str(ex)[:200]}"
    if backend == "sqlite" and o.ast_coq is not None and o.ser_error is None:
        try:
            import sqlcompile
            o.l3 = sqlcompile.real_compiled(tbl, um)
        except (KeyboardInterrupt, SystemExit):
            raise
        except BaseException as ex:  # noqa: BLE001
            o.l3_error = f"{type(ex).__name__}: {str(ex)[:200]}"
    if l2_steps and o.ser_error is None:
        try:
            o.steps_coq = step_decisions(case, out)
        except Exception as ex:  # noqa: BLE001
            o.ser_error = f"steps: {type(ex).__name__}: {ex}"
    return o


def has_marker(nd) -> bool:
    from pydiverse.transform._internal.tree import verbs as V
    return any(isinstance(x, V.SubqueryMarker) for x in nd.iter_subtree_preorder())


def step_decisions(case, out):
    """For every non-join step of the main pipe (also the one that raised SubqueryError): the AST
    before the step, the verb node as it was first tested, and what the real
    Cache.requires_subquery answered (recorded by pipes.patch_requires_subquery)."""
    import copy
    pid = case["pipe"]["id"]
    res = []
    for k, st in enumerate(case["pipe"]["steps"], 1):
        key = f"{pid}@{k}"
        if key not in out.decisions or f"{pid}@{k - 1}" not in out.points:
            continue
        if st[0] in ("join", "union", "collect"):
            continue
        node, reason = out.decisions[key]
        prev = out.points[f"{pid}@{k - 1}"]
        if st[0] == "drop":
            continue
        if has_marker(prev._ast):
            # finding F32: the verb that was re-mapped onto the subquery keeps stale memoised function
            # types, so the real cache below a marker is not the one a fresh computation gives
            continue
        nd2 = copy.copy(node)
        nd2.child = prev._ast
        um = ser.UidMap()
        a = ser.ast_to_coq(nd2, um, out.sources)
        sch = ser.schema_to_coq(ser.ast_sources(nd2, []), um)
        res.append((a, sch, reason is not None))
    return res


def observe_all(cases, backends=BACKENDS, l2_steps=False):
    return [{b: observe(c, b, l2_steps) for b in backends if b in c.get("only", backends)} for c in cases]


def case_block(i, case, obs: dict, backends=BACKENDS) -> tuple[str, list]:
    """Gallina text for one case and the list of (slot, backend) it evaluates."""
    txt = [f"Definition db{i} : db := {ser.db_to_coq(case['tables'])}."]
    slots = []
    for bi, b in enumerate(backends):
        if b not in obs:
            continue
        o = obs[b]
        if (o.ast_coq is None or o.names is None) and not o.steps_coq:
            continue
        if o.ast_coq is not None and o.names is not None:
            txt.append(f"Definition ast{i}_{bi} : ast := {o.ast_coq}.")
            txt.append(f"Definition obs{i}_{bi} : frame := {ser.frame_to_coq(o.names, o.rows)}.")
            txt.append(f"Definition sch{i}_{bi} : schema := {o.schema_coq}.")
            txt.append(f"Definition cch{i}_{bi} : cache := {o.cache_coq}.")
        for j, (a, sch, real) in enumerate(o.steps_coq):
            txt.append(f"Definition stp{i}_{bi}_{j} : bool := "
                       f"match {a} with\n  | {STEP_PATTERN} => step_agrees {'true' if b == 'polars' else 'false'} "
                       f"{sch} c v {'true' if real else 'false'}\n  | _ => false end.")
        slots.append((i * len(backends) + bi, i, bi))
    return "\n".join(txt) + "\n", slots


def eval_cases(name, cases, observations, backends=BACKENDS, shard=150):
    """Returns {(case index, backend): verdict code} for every case that could be evaluated, plus a
    list of coqc errors."""
    CASES.mkdir(parents=True, exist_ok=True)
    files = []
    for s0 in range(0, len(cases), shard):
        txt = [CASE_HEADER]
        entries = []
        for i in range(s0, min(s0 + shard, len(cases))):
            block, slots = case_block(i, cases[i], observations[i], backends)
            if not slots:
                continue
            txt.append(block)
            for slot, ci, bi in slots:
                ob = observations[ci][backends[bi]]
                nst = len(ob.steps_coq)
                stp = " && ".join([f"stp{ci}_{bi}_{j}" for j in range(nst)] or ["true"])
                if ob.ast_coq is not None and ob.names is not None:
                    entries.append(f"({slot - s0 * len(backends)}, code (check_case db{ci} ast{ci}_{bi} false obs{ci}_{bi}), "
                                   f"cache_diff (cache_of_ast sch{ci}_{bi} ast{ci}_{bi}) cch{ci}_{bi}, "
                                   f"(if {stp} then 0 else 1), (if wf sch{ci}_{bi} ast{ci}_{bi} then 1 else 0))")
                else:       # the pipeline was refused: only the subquery decisions are compared
                    entries.append(f"({slot - s0 * len(backends)}, 7, 0, (if {stp} then 0 else 1), 0)")
        if not entries:
            continue
        txt.append("Eval vm_compute in [" + ";\n ".join(entries) + "]%nat.\n")
        f = CASES / f"{name}_{s0 // shard}.v"
        f.write_text("\n".join(txt))
        files.append((f, s0 * len(backends)))       # slot numbers are file-local: a large nat literal is a unary term

    def go(fo):
        f = fo[0]
        return subprocess.run(["bash", "-c", f"ulimit -s unlimited; timeout 900 coqc {' '.join(common.COQ_ARGS)} {f}"],
                              capture_output=True, text=True, cwd=common.COQ)
    verdicts, errors = {}, []
    L2.clear()
    WF.clear()
    with ThreadPoolExecutor(common.NPROC) as ex:
        for (f, off), p in zip(files, ex.map(go, files)):
            if p.returncode != 0:
                errors.append(f"{f.name}: {(p.stderr or p.stdout)[-1500:]}")
                continue
            flat = re.sub(r"%nat|\s", "", p.stdout)
            for m in re.finditer(r"\((\d+),(\d+),(\d+),(\d+),(\d+)\)", flat):
                slot, code, cdiff, sdiff, wfok = (int(m.group(k)) for k in (1, 2, 3, 4, 5))
                slot += off
                key = (slot // len(backends), backends[slot % len(backends)])
                verdicts[key] = code
                L2[key] = (cdiff, sdiff)
                WF[key] = wfok
    return verdicts, errors


def expected_frame_text(case, obs: Obs) -> str:
    """Ask Coq for the reference frame of one case (for replay files / debugging)."""
    CASES.mkdir(parents=True, exist_ok=True)
    f = CASES / f"dbg_{abs(hash(obs.ast_coq)) % 10**8}.v"
    f.write_text(CASE_HEADER + f"Definition d : db := {ser.db_to_coq(case['tables'])}.\n"
                 f"Definition a : ast := {obs.ast_coq}.\n"
                 "Eval vm_compute in (let s := sem_ref d a in (bad s, ord_defined s, export_ref s)).\n")
    p = common.coqc_file(f, timeout=120)
    f.unlink(missing_ok=True)
    return (p.stdout + p.stderr)[-3000:]


def shrink(case, still_fails, budget=150):
    """Delta-debugging on the description: drop steps, drop definitions / predicates / keys, drop rows,
    replace expressions by sub-expressions.  [still_fails(case) -> bool] must be deterministic."""
    import copy
    best = copy.deepcopy(case)
    calls = [0]

    def ok(c):
        calls[0] += 1
        if calls[0] > budget:
            return False
        try:
            return bool(still_fails(c))
        except Exception:  # noqa: BLE001
            return False

    def pipes(c):
        out = []

        def walk(p):
            out.append(p)
            for st in p["steps"]:
                if st[0] in ("join", "union"):
                    walk(st[1])
        walk(c["pipe"])
        return out

    progress = True
    while progress and calls[0] <= budget:
        progress = False
        # drop steps (from the end first)
        for pi in range(len(pipes(best))):
            n = len(pipes(best)[pi]["steps"])
            for k in reversed(range(n)):
                c2 = copy.deepcopy(best)
                del pipes(c2)[pi]["steps"][k]
                if ok(c2):
                    best, progress = c2, True
                    break
            if progress:
                break
        if progress:
            continue
        # drop definitions / predicates / keys inside steps
        for pi in range(len(pipes(best))):
            for k, st in enumerate(pipes(best)[pi]["steps"]):
                if st[0] in ("mutate", "summarize", "filter", "arrange", "select", "drop", "group_by", "rename") \
                        and isinstance(st[1], list) and len(st[1]) > 1:
                    for j in range(len(st[1])):
                        c2 = copy.deepcopy(best)
                        del pipes(c2)[pi]["steps"][k][1][j]
                        if ok(c2):
                            best, progress = c2, True
                            break
                if progress:
                    break
            if progress:
                break
        if progress:
            continue
        # drop rows
        for name, t in best["tables"].items():
            rows = t["rows"]
            if len(rows) > 1:
                for half in (rows[: len(rows) // 2], rows[len(rows) // 2:]):
                    c2 = copy.deepcopy(best)
                    c2["tables"][name]["rows"] = half
                    if ok(c2):
                        best, progress = c2, True
                        break
            if progress:
                break
    return best
