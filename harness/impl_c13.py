"""Implementation side of C13: run the real overload resolution on the enumeration.
Invoked as a subprocess (one per PYTHONHASHSEED) by props/c13.py:
    impl_c13.py <out.json> <mode>        mode: full | quick:<seed>
Writes {"ops": {opvar: {"arity":…, "vararg":…, "blocks": [[k, kind, [code,…]], …]}}, "otab": [outcome,…]}.
An outcome is ["T", dtype_json] | ["DataTypeError"] | ["AssertionError"] | ["Other", class name]."""
from __future__ import annotations

import itertools
import json
import sys
import uuid

import universe
from translate import all_operators, dtype_to_json, json_to_dtype

U4_BASE = ["Int64", "Int", "Float64", ["str", None], "Bool", "NullType"]
U4 = U4_BASE + [["const", t] for t in U4_BASE]


def domains(k: int):
    """Per-position domains for a k-argument call (mirror of Model/Enum.v doms)."""
    if k <= 2:
        return [universe.U] * k
    if k == 3:
        return [universe.U3] * 3
    return [U4] * k


def arg_counts(arity: int, vararg: bool):
    """Which argument counts are enumerated for an operator (mirror of Model/Enum.v)."""
    if vararg:
        return [arity - 1, arity, arity + 1, arity + 2]
    return [arity]


def main():
    out, mode = sys.argv[1], sys.argv[2]
    from pydiverse.transform._internal.errors import DataTypeError
    from pydiverse.transform._internal.ops.op import Ftype
    from pydiverse.transform._internal.tree.col_expr import Col, ColFn

    otab, oidx = [], {}

    def code(o):
        key = json.dumps(o)
        if key not in oidx:
            oidx[key] = len(otab)
            otab.append(o)
        return oidx[key]

    colcache = {}

    def col(tj):
        key = json.dumps(tj)
        if key not in colcache:
            colcache[key] = Col("x", None, uuid.uuid1(), json_to_dtype(tj), Ftype.ELEMENT_WISE)
        return colcache[key]

    memo = {}

    def outcome(opvar, op, tup):
        key = (opvar, json.dumps(tup))
        if key in memo:
            return memo[key]
        try:
            e = ColFn(op, *[col(t) for t in tup])
            o = ["T", dtype_to_json(e.dtype())]
        except DataTypeError:
            o = ["DataTypeError"]
        except AssertionError:
            o = ["AssertionError"]
        except Exception as ex:  # noqa: BLE001
            o = ["Other", type(ex).__name__]
        memo[key] = o
        return o

    INTS = ["Int8", "Int16", "Int32", "Int64", "UInt8", "UInt16", "UInt32", "UInt64"]
    FLOATS = ["Float32", "Float64", ["dec", 31, 11], ["dec", 10, 2], ["dec", 38, 20]]

    def family(tj):
        t = json_to_dtype(tj)
        return "int" if t.is_int() else "float" if t.is_float() else "other"

    def variants(tj):
        if isinstance(tj, list) and tj[0] == "const":
            return [["const", v] for v in variants(tj[1])]
        return INTS if tj == "Int" else FLOATS if tj == "Float" else []

    def const_positions(op):
        from pydiverse.transform._internal.tree import types as T
        n = max(len(s.types) for s in op.signatures)
        return [i for i in range(n) if all(i < len(s.types) and T.is_const(s.types[i]) for s in op.signatures)]

    oracle_fail = {"uniform": [], "const": [], "constparam": [], "internal": []}

    def oracles(opvar, op, tup, o, cpos):
        tup = list(tup)
        if o[0] in ("AssertionError", "Other"):
            oracle_fail["internal"].append([opvar, tup, o])
        for i in cpos:
            if i < len(tup) and not (isinstance(tup[i], list) and tup[i][0] == "const") and o[0] != "DataTypeError":
                oracle_fail["constparam"].append([opvar, tup, i, o])
        if o[0] != "T":
            return
        for i, a in enumerate(tup):
            for v in variants(a):
                o2 = outcome(opvar, op, tup[:i] + [v] + tup[i + 1:])
                if o2[0] != "T" or family(o2[1]) != family(o[1]):
                    oracle_fail["uniform"].append([opvar, tup, i, v, o, o2])
            if not (isinstance(a, list) and a[0] == "const"):
                o2 = outcome(opvar, op, tup[:i] + [["const", a]] + tup[i + 1:])
                if o2[0] != "T":
                    oracle_fail["const"].append([opvar, tup, i, o, o2])

    res = {}
    for opvar, op in all_operators():
        cpos = const_positions(op)
        arity = len(op.signatures[0].types)
        vararg = any(s.is_vararg for s in op.signatures)
        blocks = []
        for k in arg_counts(arity, vararg):
            codes = []
            for tup in itertools.product(*domains(k)):
                o = outcome(opvar, op, list(tup))
                oracles(opvar, op, tup, o, cpos)
                codes.append(code(o))
            blocks.append([k, codes])
        res[opvar] = {"arity": arity, "vararg": vararg, "blocks": blocks}
    json.dump({"ops": res, "otab": otab, "oracle_fail": oracle_fail}, open(out, "w"))


if __name__ == "__main__":
    main()
