"""Offline SQL dialect engines (no server, no driver): stub DBAPI modules are put into sys.modules so
that SQLAlchemy can create PostgreSQL / SQL Server engines; only build_query() (text generation) is
used on them."""
import sys
import types

_ENGINES = {}


def _stub_postgres():
    if "psycopg2" in sys.modules:
        return
    m = types.ModuleType("psycopg2")
    ext = types.ModuleType("psycopg2.extensions")
    extras = types.ModuleType("psycopg2.extras")
    m.extensions, m.extras = ext, extras
    m.paramstyle = "pyformat"
    m.__version__ = "2.9.9 (stub)"
    m.apilevel = "2.0"
    m.threadsafety = 2

    class Error(Exception):
        pass
    m.Error = Error
    for name in ("ISOLATION_LEVEL_AUTOCOMMIT", "ISOLATION_LEVEL_READ_COMMITTED", "ISOLATION_LEVEL_READ_UNCOMMITTED",
                 "ISOLATION_LEVEL_REPEATABLE_READ", "ISOLATION_LEVEL_SERIALIZABLE"):
        setattr(ext, name, 0)
    ext.TRANSACTION_STATUS_IDLE = 0
    ext.TRANSACTION_STATUS_INTRANS = 2
    sys.modules["psycopg2"] = m
    sys.modules["psycopg2.extensions"] = ext
    sys.modules["psycopg2.extras"] = extras


def _stub_mssql():
    if "pyodbc" in sys.modules:
        return
    m = types.ModuleType("pyodbc")
    m.paramstyle = "qmark"
    m.apilevel = "2.0"
    m.threadsafety = 1
    m.version = "5.0.0"
    m.SQL_DRIVER_NAME = 6
    m.SQL_DRIVER_VER = 7

    class Error(Exception):
        pass
    m.Error = Error

    class Cursor:
        def nextset(self):
            return False
    m.Cursor = Cursor
    sys.modules["pyodbc"] = m


def engine(dialect):
    import sqlalchemy as sqa
    if dialect in _ENGINES:
        return _ENGINES[dialect]
    if dialect == "postgres":
        _stub_postgres()
        e = sqa.create_engine("postgresql+psycopg2://u:p@localhost/db")
    elif dialect == "mssql":
        _stub_mssql()
        e = sqa.create_engine("mssql+pyodbc://u:p@localhost/db?driver=ODBC+Driver+18+for+SQL+Server")
    else:
        raise ValueError(dialect)
    _ENGINES[dialect] = e
    return e


SQA_TYPES = None


def sqa_type(name):
    import sqlalchemy as sqa
    return {"Int64": sqa.BigInteger, "Int32": sqa.Integer, "Int16": sqa.SmallInteger, "Float64": sqa.Double,
            "Float32": sqa.Float, "String": sqa.String, "Bool": sqa.Boolean, "Date": sqa.Date,
            "Datetime": sqa.DateTime}[name]()


def table(dialect, name, cols):
    """a pdt.Table over a described (non-existing) database table"""
    import sqlalchemy as sqa
    import pydiverse.transform as pdt
    t = sqa.Table(name, sqa.MetaData(), *[sqa.Column(c, sqa_type(ty)) for c, ty in cols])
    return pdt.Table(t, pdt.SqlAlchemy(engine(dialect)))
