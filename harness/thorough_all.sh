#!/bin/bash
# run the thorough tier of every property once, print a one-line summary each (long)
./check --setup > /dev/null 2>&1 || { echo "setup failed"; exit 1; }
for p in $(seq -f "C%02g" 1 20); do
  s=$(date +%s); out=$(./check $p --tier thorough 2>&1); e=$(( $(date +%s) - s ))
  echo "## $p ${e}s"; echo "$out" | grep -E "VIOLATION|: ok|^  |KNOWN" | cut -c1-220 | head -12
done
