"""Writes /verif/MANIFEST.json from the table below (kept in one place so it stays consistent)."""
import json
from pathlib import Path

BASELINE = "cd /repo && /venv/bin/python -m pytest -ra -q -p no:cacheprovider --timeout=900 --continue-on-collection-errors"

CLAIMED = {
    "C13": dict(
        text="Machine-checked theorems (Rocq/Coq 8.16): permutation invariance of the resolution for arbitrary signature lists, tables and arguments (unbounded); 'Unique' = strictly cheapest candidate (unbounded); totality, sized-type uniformity and const rules decided inside the kernel over every operator of the catalogue regenerated from /repo and the representative type universe. Tie: translator (Catalogue.v, ConvTable.v regenerated per run) + outcome-by-outcome correspondence of the resolution model with the real ColFn.dtype() on the whole enumeration (505k tuples) under several PYTHONHASHSEEDs.",
        note="Trusted: Coq kernel + vm_compute; translate.py; the signature-list model of the trie (side conditions checked on the running catalogue); totality holds modulo findings F10/F17 (known_findings.json). Types outside the representative universe are covered only through the unbounded theorems.",
        technique="Rocq proof: induction/permutation lemmas + in-kernel enumeration over translator-generated catalogue; differential correspondence",
        design="5 / C13"),
}

PIPE_NOTE = ("Trusted: Coq kernel + vm_compute; harness/ser.py (prints the real resolved AST, values and Cache as Gallina); "
             "Model/RefSem.v + Model/Ops.v are the specification of results (value domain of DESIGN.md section 4: cases outside are "
             "discarded and counted); the backends' compilers are tied at L1 (results of generated pipelines on Polars and SQLite) and the "
             "metadata / subquery catalogue at L2 (Model/Cache.v vs the real Cache on every case); generator preconditions keep the main "
             "stream out of the regions of the listed known findings, which are re-demonstrated by dedicated probes.")


def pipe(text, technique, design):
    return dict(text=text, note=PIPE_NOTE, technique=technique, design=design)


CLAIMED.update({
    "C01": pipe("Theorems: a VOk verdict of the in-Coq comparison means equal names and equal rows (sequence when the pipeline fixes the order, multiset otherwise) w.r.t. ONE reference semantics evaluated on the real resolved AST of each backend; hence both backends agree. SQL compile correctness (sql_compile_correct): for every database and every AST of the single-SELECT fragment (flat_ok: source, select, rename, element-wise mutate / filter, mutate with window / aggregate functions incl. partition_by and arrange=, group_by, one summarize with HAVING-filters and mutates after it, one arrange, slice_head chains, unions and inner joins of such pipelines) the SELECT denoted by the transcription of SqlImpl.compile_ast returns exactly the reference table; Polars compile correctness (polars_compile_correct) for the transcription of the Polars compile_ast incl. rename_overwritten_cols; backends_agree: on the common fragment the SQL statement and the Polars plan denote the same table for all data. Tie: L1 on typed random pipelines over all verbs (joins, unions, windows, aggregates, all data shapes incl. tall tables with long null prefixes) on Polars and SQLite + L2 metadata traces + L3 (Model/SqlCompile.compile = real SqlImpl.compile_ast: Query record, labels, scope; Model/PlCompile.pl_compile = real Polars compile_ast: select, partition_by, name_in_df, schema; on every single-source case; share of cases inside the fragments reported). PARTIAL: outside the fragments (SQL: a plain alias() that is NOT followed by a subquery marker, joins with computed columns on a padded side; for SQL also several arranges, filters after an arrange) equality of the backends is decided per case by L1.",
                "Rocq: reference semantics + comparison soundness theorems; differential correspondence of both backends against the reference evaluated by vm_compute", "5 / C01"),
    "C02": pipe("Theorems (all tables, all expressions): select/drop only hide, rename only renames, mutate is simultaneous and keeps overwritten columns readable through their uid, filter keeps exactly the true rows in order, slice_head spec and the chain law, group_by/ungroup/alias change no data. Tie: L1 on row-verb pipelines on both backends.",
                "Rocq: theorems on the reference semantics of the row verbs (induction over definitions, firstn/skipn algebra); differential correspondence", "5 / C02"),
    "C04": pipe("Theorems: aggregates ignore nulls, give null on no non-null input, count / count(*) laws, filter= as masking, summarize yields one row when ungrouped, column order of summarize, a filter after summarize acts on groups. Tie: L1 on group/summarize-heavy pipelines incl. all-null groups, single-row groups, empty tables.",
                "Rocq: aggregate laws on the reference semantics; differential correspondence", "5 / C04"),
    "C05": pipe("Theorems: arrange is a permutation; the stable insertion sort is sorted, stable (ties keep the previous order) and commutes with filter, for any total transitive order; null placement is decided by the marker alone; descending reverses non-null order; window mutate keeps the rows; congruence of eval (a window value depends on the rows only); inlining of definitions preserves every expression form (subst_rel); the Polars plan and the SQL SELECT hand every window function the reference's rows in the reference's order (compile correctness, all data). Tie: L1 on window/arrange-heavy pipelines with all marker combinations, partitions via partition_by and via group_by.",
                "Rocq: stable-sort algebra and window reference semantics; differential correspondence", "5 / C05"),
    "C06": pipe("Theorems: inner join = exactly the matching combinations (left-major), null never equals, cross join = full product, left join keeps every left row, padded columns read null, visible columns = left ++ right; COMPILE CORRECTNESS of inner / cross / LEFT / FULL joins on both backends for all data (sql_left_join_is_the_reference: right WHERE goes into ON, valid when the right operand has no computed column - left_join_computed_right_refuted is the machine-checked counterexample otherwise, i.e. finding F37; polars_left_join_is_the_reference: unconditional; sql_inner_join_is_the_reference: FROM l JOIN r ON <condition with both operands' definitions inlined>, right WHERE appended; operands any plain SELECT..FROM..WHERE pipelines of the flat fragment incl. unions and earlier joins; rests on ref_keys - reference rows carry only the uids their pipeline mentions - and compile_base - a compiled query reads only its own FROM columns) and on Polars (polars_inner_join_is_the_reference: the three passes of rename_overwritten_cols resolving collisions among hidden columns, name_in_df.update, the row pairs satisfying the condition; the proof shows that after the passes no column name occurs in both frames). Tie: L3 on every inner-join case (SQL: Query record incl. the merged WHERE list, labels, scope vs the real compile_ast; Polars: select, name_in_df - which columns carry a suffixed name -, schema) + L1 on join-heavy pipelines (equalities, conjunctions, inequalities, cross; duplicate/null keys; empty sides; suffix configurations observed through the real Rename node).",
                "Rocq: join laws on the reference semantics; differential correspondence", "5 / C06"),
    "C07": pipe("Theorems: union all keeps every row under the left header, rows are matched by column name, distinct leaves no duplicate visible row (nulls equal); COMPILE CORRECTNESS of union on both backends, all data: sql_union_is_the_reference (transcription of the Union branch of SqlImpl.compile_ast: operands compiled to complete SELECTs, right select list reordered by column name, compound as FROM of a fresh query) and polars_union_is_the_reference (frames projected on the left names - right columns picked by name -, stacked, deduplicated, hidden columns dropped), operands being any pipelines of the flat fragments. Tie: L3 on every union case (SQL: Query record, labels, scope and the operands' select lists as column identities vs the real compile_query calls; Polars: select, name_in_df, schema) + L1 on union pipelines with permuted column orders, hidden columns, duplicates, empty sides, chained unions.",
                "Rocq: union laws on the reference semantics; differential correspondence", "5 / C07"),
    "C08": pipe("Theorems on the transcribed subquery catalogue (Model/Cache.requires_subquery): Polars never needs one; on the table re-rooted by alias()+marker NO verb needs one (alias unblocks); select/rename/slice_head/ungroup/alias never need one; filter/summarize/arrange/group_by/join/union after slice_head always do; element-wise mutate/filter, arrange, group_by and a first summarize never do while no limit and no window column are in scope; SUFFICIENCY on the flat fragment: a pipeline accepted at every verb by the transcribed catalogue applied to the transcribed metadata is compiled to a SELECT that returns the reference table (accepted_flat_pipelines_are_compiled_correctly; the metadata and the compiler transcriptions are linked by an invariant over the pipeline), with slice_head(0) (finding F16) as the machine-checked counterexample of the unrestricted statement; subquery_is_compiled_correctly: the subquery that alias() + marker produce (the query built so far nested as FROM, a fresh outer query over its columns) denotes the reference table whatever the inner query is, so a refused verb placed behind alias() is compiled correctly. Tie: L2 — every recorded decision of the real Cache.requires_subquery (also for refused verbs) equals the model's; L1 — every accepted SQLite pipeline equals the reference; oracle — alias() before a refused verb makes it accepted. A broken L2 is turned into a failing input by probing every in-scope column after each prefix.",
                "Rocq: theorems on the transcribed catalogue; L2 decision-by-decision correspondence + L1 differential", "5 / C08"),
    "C09": pipe("Theorems: data read through a uid is unchanged by rename/select/drop, by overwriting mutate (old uid keeps old data), by filter/arrange/slice_head (rows are handed on intact), by join (left part of the joined row); the current name of a uid is its export name (cache = reference header). Tie: L1 on reference-heavy histories (swaps, renaming onto hidden names, overwrite and re-create, join suffixing, references from intermediate tables, hidden columns) + stale-reference stream (must raise ColumnNotFoundError / ValueError in a join condition). Resolution of t.x / C.x to uids is performed by the real front end and not modelled (partial).",
                "Rocq: uid-denotation theorems on the reference semantics + cache/reference agreement; differential correspondence", "5 / C09"),
    "C11": pipe("MAIN theorem: for every well-formed resolved AST and ALL data the names reported by the metadata model (transcription of Cache.update / from_ast) are, in names, order and count, the header of the reference result, and its grouping state is the reference's (induction over the AST). Tie: L2 — model cache = real incremental Cache field by field on every case; oracles — columns(), iteration, len, in, dir, Cache.from_ast all agree with the exported frame on both backends; L1 — frame = reference.",
                "Rocq: induction over the AST relating the transcribed Cache to the reference semantics; L2 + L1 correspondence", "5 / C11"),
    "C15": pipe("Theorems (all data): is_in = disjunction of equalities, slice chain = one slice, inner join = cross join + filter, drop = select of the complement, mutate split, union size. Tie: metamorphic oracle — each documented equivalence instantiated on generated prefixes, both sides exported on both backends and compared (and each side vs the reference).",
                "Rocq: equivalence theorems on the reference semantics; metamorphic differential testing of both sides on both backends", "5 / C15"),
    "C16": pipe("Theorems: alias(keep) / marker change nothing; plain alias keeps names, order, row count and the data under the renamed uids; metadata follows the alias map; the re-rooted table accepts every verb. Tie: L1 on alias-heavy pipelines + oracles (alias / alias(keep) / collect leave names, order and rows unchanged; self-join with alias() accepted with |t|^2 rows; origin references rejected after plain alias).",
                "Rocq: renaming-invariance theorems; differential correspondence + re-rooting oracles", "5 / C16"),
})


CLAIMED.update({
    "C03": pipe("Theorems: the expression trees that the backends really build (generated/OpImpls.v: Polars expr.meta.serialize JSON and SQLAlchemy trees re-read from /repo on every run) evaluate, under the primitive semantics of Model/ImplExpr.v, to the documented operator for all operands: floor division and modulo on Polars and SQLite, GREATEST / LEAST on SQLite for EVERY arity (divide-and-conquer recursion proved by induction, the generated trees of arity 2..6 proved to be that recursion), is_in, Kleene and/or/xor/not, clip, horizontal folds. Tie: translator + L1 operand grid (every operator x operand classes incl. nulls, negatives, zero divisors, ties) on both backends.",
                "Rocq: emulation-correctness theorems over translator-generated implementation trees; differential operand grid", "5 / C03"),
    "C12": pipe("Theorems: Model/Typing.v (transcription of dtype() / ftype()) - literals, casts, comparisons, boolean operators, integer arithmetic, Int/Int, counts: the value of a well-typed expression inhabits its static type (partial type soundness, the proved fragment is listed in Properties/C12.v); OPERATOR LEVEL, all values: the result of each of the 40 modelled element-wise operators lies in the value family computed from the argument families (operator_results_inhabit_their_family), and - decided in the kernel over the REGENERATED catalogue, 27 872 accepted overloads of the enumeration - the declared return type of every accepted overload is in that family (declared_return_types_are_the_result_families; typed_operator_application_is_sound combines both). Tie: dtype oracle on every generated pipeline on both backends (static dtype of each visible column vs the exported Polars dtype; re-import and collect reproduce the types) + operator dtype grid (every operator x declared overload on Polars and SQLite, shift in both directions with / without fill) + L1.",
                "Rocq: typing lemmas on the transcribed type rules; dtype oracle on generated pipelines", "5 / C12"),
    "C14": pipe("Theorems: Model/Typing + Proofs/RejectLemmas - a nested aggregate / window function is rejected in every position of every expression shape (occurs-induction: arguments, partition_by, arrange, case branches, casts), an unknown column is rejected, a non-boolean case condition is rejected. Tie: planted-defect stream (27 rules of invalid use x positions in generated pipelines: unknown / hidden / foreign columns, wrong types, nested aggregation, markers outside arrange, duplicate names, grouped misuse ...) must raise the documented error class at the verb call on both backends and leave the accepted prefix usable.",
                "Rocq: rejection theorems on the transcribed type / function-type rules; planted-defect differential stream", "5 / C14"),
    "C17": pipe("Theorems: the acceptance model (transcription of Cast.dtype / is_valid_cast) equals the running code's accepted pairs over the whole type universe (in-kernel, generated/CastTable.v), every documented conversion is accepted and nothing else is except implicit conversions and String->Enum; an accepted cast is typed with its target (const kept), a rejected one is a DataTypeError at build time; null stays null; value lemmas for Int<->Float<->String<->Bool<->Date<->Datetime. Tie: translator + cast grids (source values incl. edge values x targets) on both backends vs Model/Expr.cast_value.",
                "Rocq: in-kernel model=code table equality + cast value lemmas; cast grid correspondence", "5 / C17"),
    "C18": pipe("Theorems (all strings): quote_is_one_token - the rendering of any Python string (quotes doubled) followed by any text not starting with a quote reads back as exactly that string and that text, so the statement keeps its structure; LIKE with autoescape is the literal prefix / suffix test for every pattern (%, _ and the escape character included) and every subject. Tie: literal grid over an alphabet of SQL and LIKE metacharacters through equality, is_in, concatenation, starts_with / ends_with / contains, replace_all, case on both backends (L1) + text level: build_query contains the model's rendering and keeps the statement skeleton.",
                "Rocq: tokenizer / LIKE-matcher theorems by induction on strings; literal grid + text-skeleton correspondence", "5 / C18"),
})
CLAIMED["C19"] = dict(
    text="Theorems over generated/ImplReg.v (re-read from /repo every run: outcome of <Backend>Impl.get_impl for Polars, SQLite, PostgreSQL, SQL Server x every operator x every declared overload): the lookup yields an implementation or NotSupportedError, never another error; every table entry is an overload the type checker model accepts; every operator is covered on every backend. Tie / search: get_impl on ALL accepted argument tuples of the C13 enumeration (about 60 000) x every importable backend incl. DB2; operator compile grid (plain and nested operands) and literal grid on SQLite and on offline PostgreSQL / SQL Server engines; generated pipelines x 3 dialects: text or NotSupportedError / SubqueryError, identical text on repeat, rebuild and under other PYTHONHASHSEEDs, one statement, SQLite prepares it. PARTIAL: the SQL compilers are not modelled - the pipeline sentence of C19 is decided by these runs, not by a theorem.",
    note="Trusted: Coq kernel + vm_compute; translate.py gen_implreg; stub DBAPI modules (harness/dialects.py) so that SQLAlchemy builds PostgreSQL / SQL Server engines offline (text generation only, never executed); DuckDB driver not importable here.",
    technique="Rocq proof over a translator-generated implementation table (in-kernel totality) + exhaustive lookup enumeration + multi-dialect build_query differential runs",
    design="5 / C19")
CLAIMED["C20"] = dict(
    text="Theorems (every frame: any width, height, cell type; empty, single cell): DictOfLists is the frame; ListOfDicts has one dict per row, each with the frame's names in order, and decodes back to the frame (so both hold the same value at every (row, name)); Dict applies exactly to one-row tables and is that row; Scalar applies exactly to single-cell tables and is that cell; wf_b (evaluated on every real frame) implies the hypothesis; the type re-imported from an exported frame is the storage type and storage types are fixed points (generated/PolarsTypes.v). Tie: Coq evaluates the encoders on the real export(Polars()) frame of generated pipelines and edge tables on both backends and compares with the real DictOfLists / ListOfDicts / Dict / Scalar; Python oracles for Polars(lazy=True), Pandas, ColExpr.export (Polars, Pandas), Table(<frame>) and Table(<pandas frame>).",
    note="Trusted: Coq kernel + vm_compute; polars / pandas materialisation (third party) tied by evaluation only; SQL backends implement the Polars target only.",
    technique="Rocq proof: encoder / decoder round-trip theorems by induction on frames; model-vs-implementation evaluation on every case + oracles",
    design="5 / C20")
CLAIMED["C10"] = dict(
    text="Theorems: (1) history independence - in the session model (any interleaving of verb calls, exports, other calls) every export of a table is the value of the tree bound at its creation; (2) frame theorem - any straight-line path of heap statements that passes the static check leaves every pre-existing object unchanged, for all heaps and contents; the statement lists of Cache.update (all verb branches), preprocess_arg and _preprocess_expr, regenerated from /repo's source on every run, pass the check. Tie: busy session (shared expression objects reused under different grouping states and in mutate / summarize / filter / arrange, interleaved exports / build_query / printing, fingerprints of all pre-existing tables, expressions, source frames and database tables after every call) vs isolated rebuild: same canonical tree, metadata, rows and query text; L1 / L2 in Coq on the session's tables. PARTIAL: verb front ends, export clones and backend compilers are covered by the session runs only.",
    note="Trusted: Coq kernel; translate.py EffectTranslator (fail-closed statement classification; whitelisted calls assumed effect-free, dtype()/ftype() memoisation excluded); harness/session.py fingerprint.",
    technique="Rocq proof: induction over sessions; abstract-interpretation soundness (frame theorem) applied to translator-generated effect paths; session differential testing with object fingerprints",
    design="5 / C10")

REASON_TODO = "not yet built in this round (planned, DESIGN.md section 5); no check is registered rather than an empty one"

def main():
    checks = []
    for pid, c in sorted(CLAIMED.items()):
        checks.append({
            "property_id": pid,
            "quick_cmd": f"./check {pid} --tier quick",
            "thorough_cmd": f"./check {pid} --tier thorough",
            "evidence_file": f"/verif/evidence/{pid}.json",
            "replay_cmd_template": f"./check {pid} --replay {{path}}",
            "engine": "rocq-pdt",
            "level_claimed": {"category": "proof", "text": c["text"], "design_ref": c["design"]},
            "level_note": c["note"],
            "technique": c["technique"],
        })
    na = [{"property_id": f"C{i:02d}", "reason": REASON_TODO} for i in range(1, 21) if f"C{i:02d}" not in CLAIMED]
    m = {
        "version": 1,
        "setup_cmd": "./check --setup",
        "hooks": {
            "guard": "PYDIVERSE_TRANSFORM_VERIF",
            "enable": "no source hooks: the harness observes the package by wrapping module attributes in its own process",
            "baseline_off_cmd": BASELINE,
            "source_commits": [],
            "add_only": True,
        },
        "engines": [{"name": "rocq-pdt", "path": "/verif/check", "serves_properties": sorted(CLAIMED),
                     "kind_free_text": "Coq 8.16 development under /verif/coq (model + theorems), Python harness under /verif/harness (translator, generators, correspondence)"}],
        "checks": checks,
        "not_applicable": na,
        "notes": "See DESIGN.md. Known findings: known_findings.json.",
    }
    Path("/verif/MANIFEST.json").write_text(json.dumps(m, indent=1) + "\n")

if __name__ == "__main__":
    main()
