"""Writes /verif/MANIFEST.json from the table below (kept in one place so it stays consistent)."""
import json
from pathlib import Path

BASELINE = "cd /repo && /venv/bin/python -m pytest -ra -q -p no:cacheprovider --timeout=900 --continue-on-collection-errors"

CLAIMED = {
    "C13": dict(
        text="Machine-checked theorems (Rocq/Coq 8.16): permutation invariance of the resolution for arbitrary signature lists, tables and arguments (unbounded); 'Unique' = strictly cheapest candidate (unbounded); totality, sized-type uniformity and const rules decided inside the kernel over every operator of the catalogue regenerated from /repo and the representative type universe. Tie: translator (Catalogue.v, ConvTable.v regenerated per run) + outcome-by-outcome correspondence of the resolution model with the real ColFn.dtype() on the whole enumeration (505k tuples) under several PYTHONHASHSEEDs.",
        note="Trusted: Coq kernel + vm_compute; translate.py; the signature-list model of the trie (side conditions checked on the running catalogue); totality holds modulo findings F10/F17 (known_findings.json). Types outside the representative universe are covered only through the unbounded theorems.",
        technique="Rocq proof: induction/permutation lemmas + in-kernel enumeration over translator-generated catalogue; differential correspondence",
        design="5 / C13"),
}

REASON_TODO = "not yet built in this round (planned, DESIGN.md section 5); no check is registered rather than an empty one"

def main():
    checks = []
    for pid, c in sorted(CLAIMED.items()):
        checks.append({
            "property_id": pid,
            "quick_cmd": f"./check {pid} --tier quick",
            "thorough_cmd": f"./check {pid} --tier thorough",
            "evidence_file": f"/verif/evidence/{pid}.json",
            "replay_cmd_template": f"./check {pid} --replay {{path}}",
            "engine": "rocq-pdt",
            "level_claimed": {"category": "proof", "text": c["text"], "design_ref": c["design"]},
            "level_note": c["note"],
            "technique": c["technique"],
        })
    na = [{"property_id": f"C{i:02d}", "reason": REASON_TODO} for i in range(1, 21) if f"C{i:02d}" not in CLAIMED]
    m = {
        "version": 1,
        "setup_cmd": "./check --setup",
        "hooks": {
            "guard": "PYDIVERSE_TRANSFORM_VERIF",
            "enable": "no source hooks: the harness observes the package by wrapping module attributes in its own process",
            "baseline_off_cmd": BASELINE,
            "source_commits": [],
            "add_only": True,
        },
        "engines": [{"name": "rocq-pdt", "path": "/verif/check", "serves_properties": sorted(CLAIMED),
                     "kind_free_text": "Coq 8.16 development under /verif/coq (model + theorems), Python harness under /verif/harness (translator, generators, correspondence)"}],
        "checks": checks,
        "not_applicable": na,
        "notes": "See DESIGN.md. Known findings: known_findings.json.",
    }
    Path("/verif/MANIFEST.json").write_text(json.dumps(m, indent=1) + "\n")

if __name__ == "__main__":
    main()
