"""Writes /verif/MANIFEST.json from the table below (kept in one place so it stays consistent)."""
import json
from pathlib import Path

BASELINE = "cd /repo && /venv/bin/python -m pytest -ra -q -p no:cacheprovider --timeout=900 --continue-on-collection-errors"

CLAIMED = {
    "C13": dict(
        text="Machine-checked theorems (Rocq/Coq 8.16): permutation invariance of the resolution for arbitrary signature lists, tables and arguments (unbounded); 'Unique' = strictly cheapest candidate (unbounded); totality, sized-type uniformity and const rules decided inside the kernel over every operator of the catalogue regenerated from /repo and the representative type universe. Tie: translator (Catalogue.v, ConvTable.v regenerated per run) + outcome-by-outcome correspondence of the resolution model with the real ColFn.dtype() on the whole enumeration (505k tuples) under several PYTHONHASHSEEDs.",
        note="Trusted: Coq kernel + vm_compute; translate.py; the signature-list model of the trie (side conditions checked on the running catalogue); totality holds modulo findings F10/F17 (known_findings.json). Types outside the representative universe are covered only through the unbounded theorems.",
        technique="Rocq proof: induction/permutation lemmas + in-kernel enumeration over translator-generated catalogue; differential correspondence",
        design="5 / C13"),
}

PIPE_NOTE = ("Trusted: Coq kernel + vm_compute; harness/ser.py (prints the real resolved AST, values and Cache as Gallina); "
             "Model/RefSem.v + Model/Ops.v are the specification of results (value domain of DESIGN.md section 4: cases outside are "
             "discarded and counted); the backends' compilers are tied at L1 (results of generated pipelines on Polars and SQLite) and the "
             "metadata / subquery catalogue at L2 (Model/Cache.v vs the real Cache on every case); generator preconditions keep the main "
             "stream out of the regions of the listed known findings, which are re-demonstrated by dedicated probes.")


def pipe(text, technique, design):
    return dict(text=text, note=PIPE_NOTE, technique=technique, design=design)


CLAIMED.update({
    "C01": pipe("Theorems: a VOk verdict of the in-Coq comparison means equal names and equal rows (sequence when the pipeline fixes the order, multiset otherwise) w.r.t. ONE reference semantics evaluated on the real resolved AST of each backend; hence both backends agree. Tie: L1 on typed random pipelines over all verbs (joins, unions, windows, aggregates, all data shapes incl. tall tables with long null prefixes) on Polars and SQLite + L2 metadata traces. The compile-correctness invariant of DESIGN 5/C01 is only partly formalised (Cache model); the SQL/Polars compiler models are future work and stated as such in the evidence.",
                "Rocq: reference semantics + comparison soundness theorems; differential correspondence of both backends against the reference evaluated by vm_compute", "5 / C01"),
    "C02": pipe("Theorems (all tables, all expressions): select/drop only hide, rename only renames, mutate is simultaneous and keeps overwritten columns readable through their uid, filter keeps exactly the true rows in order, slice_head spec and the chain law, group_by/ungroup/alias change no data. Tie: L1 on row-verb pipelines on both backends.",
                "Rocq: theorems on the reference semantics of the row verbs (induction over definitions, firstn/skipn algebra); differential correspondence", "5 / C02"),
    "C04": pipe("Theorems: aggregates ignore nulls, give null on no non-null input, count / count(*) laws, filter= as masking, summarize yields one row when ungrouped, column order of summarize, a filter after summarize acts on groups. Tie: L1 on group/summarize-heavy pipelines incl. all-null groups, single-row groups, empty tables.",
                "Rocq: aggregate laws on the reference semantics; differential correspondence", "5 / C04"),
    "C05": pipe("Theorems: arrange is a permutation; the stable insertion sort is sorted, stable (ties keep the previous order) and commutes with filter, for any total transitive order; null placement is decided by the marker alone; descending reverses non-null order; window mutate keeps the rows. Tie: L1 on window/arrange-heavy pipelines with all marker combinations, partitions via partition_by and via group_by.",
                "Rocq: stable-sort algebra and window reference semantics; differential correspondence", "5 / C05"),
    "C06": pipe("Theorems: inner join = exactly the matching combinations (left-major), null never equals, cross join = full product, left join keeps every left row, padded columns read null, visible columns = left ++ right. Tie: L1 on join-heavy pipelines (equalities, conjunctions, inequalities, cross; duplicate/null keys; empty sides; suffix configurations observed through the real Rename node).",
                "Rocq: join laws on the reference semantics; differential correspondence", "5 / C06"),
    "C07": pipe("Theorems: union all keeps every row under the left header, rows are matched by column name, distinct leaves no duplicate visible row (nulls equal). Tie: L1 on union pipelines with permuted column orders, hidden columns, duplicates, empty sides, chained unions.",
                "Rocq: union laws on the reference semantics; differential correspondence", "5 / C07"),
    "C08": pipe("Theorems on the transcribed subquery catalogue (Model/Cache.requires_subquery): Polars never needs one; on the table re-rooted by alias()+marker NO verb needs one (alias unblocks); select/rename/slice_head/ungroup/alias never need one; filter/summarize/arrange/group_by/join/union after slice_head always do; element-wise mutate/filter, arrange, group_by and a first summarize never do while no limit and no window column are in scope. Tie: L2 — every recorded decision of the real Cache.requires_subquery (also for refused verbs) equals the model's; L1 — every accepted SQLite pipeline equals the reference; oracle — alias() before a refused verb makes it accepted. A broken L2 is turned into a failing input by probing every in-scope column after each prefix.",
                "Rocq: theorems on the transcribed catalogue; L2 decision-by-decision correspondence + L1 differential", "5 / C08"),
    "C09": pipe("Theorems: data read through a uid is unchanged by rename/select/drop, by overwriting mutate (old uid keeps old data), by filter/arrange/slice_head (rows are handed on intact), by join (left part of the joined row); the current name of a uid is its export name (cache = reference header). Tie: L1 on reference-heavy histories (swaps, renaming onto hidden names, overwrite and re-create, join suffixing, references from intermediate tables, hidden columns) + stale-reference stream (must raise ColumnNotFoundError / ValueError in a join condition). Resolution of t.x / C.x to uids is performed by the real front end and not modelled (partial).",
                "Rocq: uid-denotation theorems on the reference semantics + cache/reference agreement; differential correspondence", "5 / C09"),
    "C11": pipe("MAIN theorem: for every well-formed resolved AST and ALL data the names reported by the metadata model (transcription of Cache.update / from_ast) are, in names, order and count, the header of the reference result, and its grouping state is the reference's (induction over the AST). Tie: L2 — model cache = real incremental Cache field by field on every case; oracles — columns(), iteration, len, in, dir, Cache.from_ast all agree with the exported frame on both backends; L1 — frame = reference.",
                "Rocq: induction over the AST relating the transcribed Cache to the reference semantics; L2 + L1 correspondence", "5 / C11"),
    "C15": pipe("Theorems (all data): is_in = disjunction of equalities, slice chain = one slice, inner join = cross join + filter, drop = select of the complement, mutate split, union size. Tie: metamorphic oracle — each documented equivalence instantiated on generated prefixes, both sides exported on both backends and compared (and each side vs the reference).",
                "Rocq: equivalence theorems on the reference semantics; metamorphic differential testing of both sides on both backends", "5 / C15"),
    "C16": pipe("Theorems: alias(keep) / marker change nothing; plain alias keeps names, order, row count and the data under the renamed uids; metadata follows the alias map; the re-rooted table accepts every verb. Tie: L1 on alias-heavy pipelines + oracles (alias / alias(keep) / collect leave names, order and rows unchanged; self-join with alias() accepted with |t|^2 rows; origin references rejected after plain alias).",
                "Rocq: renaming-invariance theorems; differential correspondence + re-rooting oracles", "5 / C16"),
})

REASON_TODO = "not yet built in this round (planned, DESIGN.md section 5); no check is registered rather than an empty one"

def main():
    checks = []
    for pid, c in sorted(CLAIMED.items()):
        checks.append({
            "property_id": pid,
            "quick_cmd": f"./check {pid} --tier quick",
            "thorough_cmd": f"./check {pid} --tier thorough",
            "evidence_file": f"/verif/evidence/{pid}.json",
            "replay_cmd_template": f"./check {pid} --replay {{path}}",
            "engine": "rocq-pdt",
            "level_claimed": {"category": "proof", "text": c["text"], "design_ref": c["design"]},
            "level_note": c["note"],
            "technique": c["technique"],
        })
    na = [{"property_id": f"C{i:02d}", "reason": REASON_TODO} for i in range(1, 21) if f"C{i:02d}" not in CLAIMED]
    m = {
        "version": 1,
        "setup_cmd": "./check --setup",
        "hooks": {
            "guard": "PYDIVERSE_TRANSFORM_VERIF",
            "enable": "no source hooks: the harness observes the package by wrapping module attributes in its own process",
            "baseline_off_cmd": BASELINE,
            "source_commits": [],
            "add_only": True,
        },
        "engines": [{"name": "rocq-pdt", "path": "/verif/check", "serves_properties": sorted(CLAIMED),
                     "kind_free_text": "Coq 8.16 development under /verif/coq (model + theorems), Python harness under /verif/harness (translator, generators, correspondence)"}],
        "checks": checks,
        "not_applicable": na,
        "notes": "See DESIGN.md. Known findings: known_findings.json.",
    }
    Path("/verif/MANIFEST.json").write_text(json.dumps(m, indent=1) + "\n")

if __name__ == "__main__":
    main()
