"""Serialiser: real ASTs / expressions / values / frames  ->  Gallina terms of Model/RefSem.v.
UUIDs are canonicalised by first appearance (sources first), so the model receives the uuids the
real AST contains and never has to guess uuid1()."""
from __future__ import annotations

import datetime
import decimal
import math

from common import coq_string
from translate import TranslateError, all_operators, coq_ident, dtype_to_coq


class SerError(Exception):
    pass


_OPVAR = None


def opvar_of(op) -> str:
    global _OPVAR
    if _OPVAR is None:
        _OPVAR = {id(o): v for v, o in all_operators()}
    try:
        return _OPVAR[id(op)]
    except KeyError:
        raise SerError(f"operator {op!r} is not in the catalogue") from None


def is_ascii_printable(s: str) -> bool:
    return all(32 <= ord(c) < 127 for c in s)


def str_to_coq(s: str) -> str:
    """Coq string term for the UTF-8 bytes of s."""
    if is_ascii_printable(s):
        return coq_string(s)
    b = s.encode("utf-8")
    out = "EmptyString"
    for byte in reversed(b):
        out = f"(String (Ascii.ascii_of_nat {byte}) {out})"
    return out


def value_to_coq(v) -> str:
    if v is None:
        return "VNull"
    if isinstance(v, bool):
        return "(VBool true)" if v else "(VBool false)"
    if isinstance(v, int):
        return f"(VInt ({v})%Z)"
    if isinstance(v, float):
        if math.isnan(v) or math.isinf(v):
            return "VErr"
        h = v.hex()
        return f"(VFloat ({h})%float)"
    if isinstance(v, decimal.Decimal):
        return value_to_coq(float(v))
    if isinstance(v, str):
        return f"(VStr {str_to_coq(v)})"
    if isinstance(v, datetime.datetime):
        us = (v - datetime.datetime(1970, 1, 1)) // datetime.timedelta(microseconds=1)
        return f"(VDatetime ({us})%Z)"
    if isinstance(v, datetime.date):
        return f"(VDate ({(v - datetime.date(1970, 1, 1)).days})%Z)"
    raise SerError(f"value {v!r} of type {type(v).__name__}")


def rows_to_coq(rows) -> str:
    import common
    return "[" + ";\n   ".join("[" + "; ".join(value_to_coq(common.dec_value(v)) for v in r) + "]" for r in rows) + "]"


def frame_to_coq(names, rows) -> str:
    return ("{| f_names := [" + "; ".join(str_to_coq(n) for n in names) + "];\n   f_rows := "
            + rows_to_coq(rows) + " |}")


class UidMap:
    def __init__(self):
        self.m = {}

    def __call__(self, u) -> int:
        if u not in self.m:
            self.m[u] = len(self.m) + 1
        return self.m[u]

    def coq(self, u) -> str:
        return f"{self(u)}%N"


def expr_to_coq(e, um: UidMap) -> str:
    from pydiverse.transform._internal.tree import col_expr as CE

    if isinstance(e, CE.Col):
        return f"(ECol {um.coq(e._uuid)})"
    if isinstance(e, CE.LiteralCol):
        return f"(ELit {value_to_coq(e.val)})"
    if isinstance(e, CE.ColFn):
        args = "[" + "; ".join(expr_to_coq(a, um) for a in e.args) + "]"
        ck = e.context_kwargs
        extra = set(ck) - {"partition_by", "arrange", "filter"}
        if extra:
            raise SerError(f"context kwargs {extra}")
        if ck.get("filter"):
            # only count_star keeps an unrewritten filter (finding #15): not representable
            raise SerError("unrewritten filter= kwarg")
        has_part = "partition_by" in ck
        part = "[" + "; ".join(expr_to_coq(p, um) for p in ck.get("partition_by", [])) + "]"
        arr = "[" + "; ".join(order_to_coq(o, um) for o in ck.get("arrange", [])) + "]"
        return (f"(EFn Op_{coq_ident(opvar_of(e.op))} {args} {'true' if has_part else 'false'} "
                f"{part} {arr})")
    if isinstance(e, CE.CaseExpr):
        cases = "[" + "; ".join(f"({expr_to_coq(c, um)}, {expr_to_coq(v, um)})" for c, v in e.cases) + "]"
        d = "None" if e.default_val is None else f"(Some {expr_to_coq(e.default_val, um)})"
        return f"(ECase {cases} {d})"
    if isinstance(e, CE.Cast):
        if not e.strict:
            raise SerError("non-strict cast")
        return f"(ECast {expr_to_coq(e.val, um)} {dtype_to_coq(e.target_type)})"
    raise SerError(f"expression node {type(e).__name__}")


def order_to_coq(o, um: UidMap) -> str:
    from pydiverse.transform._internal.tree import col_expr as CE

    if not isinstance(o, CE.Order):
        raise SerError(f"arrange entry {type(o).__name__}")
    nl = "None" if o.nulls_last is None else f"(Some {'true' if o.nulls_last else 'false'})"
    return f"({expr_to_coq(o.order_by, um)}, ({'true' if o.descending else 'false'}, {nl}))"


def ast_sources(nd, acc):
    """Source nodes in left-to-right order."""
    from pydiverse.transform._internal.tree import verbs as V

    if isinstance(nd, V.Verb):
        ast_sources(nd.child, acc)
        if isinstance(nd, V.Join | V.Union):
            ast_sources(nd.right, acc)
    else:
        acc.append(nd)
    return acc


def ast_to_coq(nd, um: UidMap, src_names: dict) -> str:
    """src_names: id(TableImpl) -> name of the description's source table."""
    from pydiverse.transform._internal.tree import verbs as V

    def defs(nd):
        return "[" + "; ".join(f"({str_to_coq(n)}, {um.coq(u)}, {expr_to_coq(v, um)})"
                                for n, u, v in zip(nd.names, nd.uuids, nd.values, strict=True)) + "]"

    if not isinstance(nd, V.Verb):
        cols = "[" + "; ".join(f"({str_to_coq(c.name)}, {um.coq(c._uuid)})" for c in nd.cols.values()) + "]"
        key = src_names.get(id(nd)) or src_names.get(("name", nd.name))
        if key is None:
            raise SerError(f"unknown source table {nd.name}")
        return f"(Source {str_to_coq(key)} {cols})"
    c = ast_to_coq(nd.child, um, src_names)
    if isinstance(nd, V.Alias):
        if nd.uuid_map is None:
            return f"(Alias {c} None)"
        m = "[" + "; ".join(f"({um.coq(k)}, {um.coq(v)})" for k, v in nd.uuid_map.items()) + "]"
        return f"(Alias {c} (Some {m}))"
    if isinstance(nd, V.SubqueryMarker):
        return f"(SubqueryMarker {c})"
    if isinstance(nd, V.Select):
        return f"(Select {c} [" + "; ".join(um.coq(col._uuid) for col in nd.select) + "])"
    if isinstance(nd, V.Rename):
        return (f"(Rename {c} [" + "; ".join(f"({str_to_coq(k)}, {str_to_coq(v)})"
                                              for k, v in nd.name_map.items()) + "])")
    if isinstance(nd, V.Mutate):
        return f"(Mutate {c} {defs(nd)})"
    if isinstance(nd, V.Summarize):
        return f"(Summarize {c} {defs(nd)})"
    if isinstance(nd, V.Filter):
        return f"(Filter {c} [" + "; ".join(expr_to_coq(p, um) for p in nd.predicates) + "])"
    if isinstance(nd, V.Arrange):
        return f"(Arrange {c} [" + "; ".join(order_to_coq(o, um) for o in nd.order_by) + "])"
    if isinstance(nd, V.SliceHead):
        return f"(SliceHead {c} ({nd.n})%Z ({nd.offset})%Z)"
    if isinstance(nd, V.GroupBy):
        return (f"(GroupBy {c} [" + "; ".join(um.coq(col._uuid) for col in nd.group_by)
                + f"] {'true' if nd.add else 'false'})")
    if isinstance(nd, V.Ungroup):
        return f"(Ungroup {c})"
    if isinstance(nd, V.Join):
        r = ast_to_coq(nd.right, um, src_names)
        how = {"inner": "JInner", "left": "JLeft", "full": "JFull"}[nd.how]
        return f"(Join {c} {r} {expr_to_coq(nd.on, um)} {how})"
    if isinstance(nd, V.Union):
        r = ast_to_coq(nd.right, um, src_names)
        return f"(Union {c} {r} {'true' if nd.distinct else 'false'})"
    raise SerError(f"AST node {type(nd).__name__}")


def db_to_coq(tables: dict) -> str:
    """tables: name -> {"cols": [[name, dtype]...], "rows": [[...]]}"""
    return "[" + ";\n  ".join(f"({str_to_coq(n)}, {rows_to_coq(t['rows'])})" for n, t in tables.items()) + "]"


def ftype_to_coq(ft) -> str:
    return {"ELEMENT_WISE": "ElementWise", "AGGREGATE": "Aggregate", "WINDOW": "Window"}[ft.name]


def cache_to_coq(cache, um: UidMap) -> str:
    """The observable fields of a real pipe.cache.Cache as a Model/Cache.v record."""
    n2u = "[" + "; ".join(f"({str_to_coq(n)}, {um.coq(u)})" for n, u in cache.name_to_uuid.items()) + "]"
    pb = "[" + "; ".join(um.coq(u) for u in cache.partition_by) + "]"
    cols = "[" + ";\n    ".join(
        f"({um.coq(u)}, {{| c_name := {str_to_coq(c.name)}; c_dtype := {dtype_to_coq(c.dtype())}; "
        f"c_ftype := {ftype_to_coq(c.ftype())} |}})" for u, c in cache.cols.items()) + "]"
    gb = "[" + "; ".join(um.coq(u) for u in sorted(cache.group_by, key=lambda x: um(x))) + "]"
    return ("{| name_to_uuid := " + n2u + "; partition_by := " + pb + ";\n   cols := " + cols
            + f";\n   limit := ({int(cache.limit)})%Z; group_by := {gb}; "
            + f"is_filtered := {'true' if cache.is_filtered else 'false'} |}}")


def schema_to_coq(sources, um: UidMap) -> str:
    """uid -> dtype of the source columns (sources: list of TableImpl)."""
    ents = []
    for nd in sources:
        for c in nd.cols.values():
            ents.append(f"({um.coq(c._uuid)}, {dtype_to_coq(c.dtype())})")
    return "[" + "; ".join(ents) + "]"
